#!/usr/bin/env python3
"""Generator of evolution families (DESIGN section 6, "Families").

Emits Rust source: for every family one declaration per release (`<Fam>_V<k>`) with
#[derive(BinaryCodec)], a Bridge impl into the reference universe (declaration -> RecordDef /
EnumDef, value <-> Val) and the table of families. Only *legal* histories are produced
(DESIGN 4.4): steps are appended; the order of chunk-0 fields never changes; a removed or
made-transient field is, at that time, the last field serialized in its chunk; the default of an
added field is re-typed when the field later becomes optional; tuple variants only grow and
shrink at the end; constructors are only appended (after all existing ones in index order).

usage: families.py <seed> <out.rs>
"""
import random
import sys

RELEASES = 6  # releases 0..5

NAMES = ["id", "name", "tag", "c", "x", "y", "z", "w", "n", "k", "v", "q", "extra", "data", "flag",
         "cnt", "a", "b", "d", "e", "g", "h", "m", "p", "r", "s", "t", "u"]
# names whose byte order differs from their case-insensitive order, and one with an underscore
CTOR_NAMES = ["AZ", "Ab", "B_x", "Ba", "Alpha", "Beta", "Gamma", "Delta", "Eps", "Zeta", "Eta", "Theta", "Iota", "Kappa",
              "Lambda", "Mu", "Nu", "Xi", "Omi", "Pi", "Rho", "Sigma", "Tau", "Ups", "Phi", "Chi", "Psi", "Zz"]


OPTION_SPELLINGS = ["Option", "Option", "Option", "std::option::Option", "core::option::Option"]


class Ty:
    """a field type: rust spelling + generator of default expressions"""

    def __init__(self, rust, default, optional=False, inner=None, kind="plain", elem=None):
        self.rust = rust
        self.default = default  # fn(rng) -> rust expr of this type
        self.optional = optional
        self.inner = inner  # for Option<T>
        self.kind = kind  # plain | seq | pairs | bytes
        self.elem = elem

    def opt(self, spelling="Option"):
        # the macro recognises optional fields by the spelling of their type
        inner = self
        return Ty(f"{spelling}<{self.rust}>", lambda r: "None" if r.random() < 0.4 else f"Some({inner.default(r)})",
                  optional=True, inner=self)


def lit_int(t, lo, hi):
    return Ty(t, lambda r: f"{r.choice([0, 1, lo, hi, r.randint(lo, hi)])}{t}")


def str_ty():
    return Ty("String", lambda r: '"%s".to_string()' % r.choice(["", "dflt", "héllo", "x y", "name"]))


LEAVES = [
    lambda: lit_int("u8", 0, 255), lambda: lit_int("u16", 0, 65535), lambda: lit_int("u32", 0, 2**32 - 1),
    lambda: lit_int("u64", 0, 2**64 - 1), lambda: lit_int("i8", -128, 127), lambda: lit_int("i16", -32768, 32767),
    lambda: lit_int("i32", -2**31, 2**31 - 1), lambda: lit_int("i64", -2**63, 2**63 - 1),
    lambda: Ty("bool", lambda r: r.choice(["true", "false"])),
    str_ty, str_ty, str_ty,
    lambda: Ty("char", lambda r: r.choice(["'a'", "'é'", "'\\u{0}'"])),
    lambda: Ty("f64", lambda r: r.choice(["0.0f64", "-1.5f64", "f64::MAX"])),
    lambda: Ty("(u8, String)", lambda r: '(7u8, "t".to_string())'),
    lambda: Ty("(i32, bool, u16)", lambda r: "(-1i32, true, 9u16)"),
    lambda: Ty("std::time::Duration", lambda r: "std::time::Duration::new(5, 6)"),
    lambda: Ty("uuid::Uuid", lambda r: "uuid::Uuid::from_bytes([7u8; 16])"),
]

# containers over which C12 replaces data structures; all members of a group share the element type
SEQ_ELEMS = [("u16", ["1u16", "2u16", "3u16"]), ("String", ['"a".to_string()', '"b".to_string()']),
             ("i64", ["-1i64", "5i64"]), ("(u8, u16)", ["(1u8, 2u16)"]), ("i8", ["-3i8", "5i8"]),
             ("u32", ["7u32"]), ("bool", ["true"]), ("i16", ["-2i16"]), ("char", ["'x'"]), ("u64", ["9u64"]),
             ("Option<u8>", ["Some(1u8)"]), ("()", ["()"])]
SEQ_CONTAINERS = ["Vec<{e}>", "LinkedList<{e}>", "BTreeSet<{e}>", "HashSet<{e}>", "[{e}; 2]", "Streamed<{e}>", "SliceOf<{e}>"]
PAIR_ELEMS = [("String", "u32", ['("k".to_string(), 1u32)']), ("u8", "String", ['(1u8, "v".to_string())'])]
PAIR_CONTAINERS = ["Vec<({k}, {v})>", "BTreeMap<{k}, {v}>", "HashMap<{k}, {v}>", "LinkedList<({k}, {v})>"]
BYTE_CONTAINERS = ["Vec<u8>", "Bytes", "[u8; 4]"]


def seq_ty(container, elem, samples):
    rust = container.format(e=elem)
    if container.startswith("["):
        d = f"[{samples[0]}, {samples[0]}]"
    elif container.startswith("Vec"):
        d = "vec![%s]" % ", ".join(samples[:1])
    elif container.startswith("Streamed"):
        d = "Streamed(vec![%s])" % ", ".join(samples[:1])
    elif container.startswith("SliceOf"):
        d = "SliceOf(vec![%s])" % ", ".join(samples[:1])
    else:
        d = "[%s].into_iter().collect()" % ", ".join(samples[:1])
    return Ty(rust, lambda r, d=d: d, kind="seq", elem=(elem, samples))


def pair_ty(container, k, v, samples):
    rust = container.format(k=k, v=v)
    if container.startswith("Vec"):
        d = "vec![%s]" % samples[0]
    else:
        d = "[%s].into_iter().collect()" % samples[0]
    return Ty(rust, lambda r, d=d: d, kind="pairs", elem=(k, v, samples))


def bytes_ty(container):
    d = {"Vec<u8>": "vec![1u8, 2, 3, 4]", "Bytes": "Bytes::from_static(&[1u8, 2, 3, 4])", "[u8; 4]": "[1u8, 2, 3, 4]"}[container]
    return Ty(container, lambda r, d=d: d, kind="bytes")


class Field:
    def __init__(self, name, ty, chunk=0, transient=None, default=None):
        self.name = name
        self.ty = ty
        self.chunk = chunk
        self.transient = transient  # rust expr
        self.default = default  # rust expr (FieldAdded default)

    def clone(self):
        return Field(self.name, self.ty, self.chunk, self.transient, self.default)


class Record:
    """fields + steps of a struct or of an enum constructor"""

    def __init__(self, positional=False):
        self.fields = []
        self.steps = []  # (kind, name, default_expr or None)
        self.used = set()
        self.positional = positional
        self.has_removal = False

    def clone(self):
        r = Record(self.positional)
        r.fields = [f.clone() for f in self.fields]
        r.steps = list(self.steps)
        r.used = set(self.used)
        r.has_removal = self.has_removal
        return r

    def fresh_name(self, rng):
        if self.positional:
            return f"field{len(self.fields)}"
        cands = [n for n in NAMES if n not in self.used]
        return rng.choice(cands)

    def serialized(self, chunk):
        return [f for f in self.fields if f.transient is None and f.chunk == chunk]

    def last_in_chunk(self):
        """fields that are the last serialized one of their chunk"""
        out = []
        chunks = sorted(set(f.chunk for f in self.fields if f.transient is None))
        for c in chunks:
            fs = self.serialized(c)
            if fs:
                out.append(fs[-1])
        if self.positional:
            # tuple variants only shrink at the end
            out = [f for f in out if f is self.fields[-1]]
        return out


def random_leaf(rng, ctx):
    r = rng.random()
    if r < 0.12 and ctx["nestable"]:
        fam = rng.choice(ctx["nestable"])
        form = rng.choice(["plain", "opt", "vec", "box", "tuple"])
        ctx["nested_used"].add(fam.name)
        return NestedTy(fam, form)
    if r < 0.22:
        e, s = rng.choice(SEQ_ELEMS)
        return seq_ty(rng.choice(SEQ_CONTAINERS[:3]), e, s)
    if r < 0.27:
        k, v, s = rng.choice(PAIR_ELEMS)
        return pair_ty(rng.choice(PAIR_CONTAINERS[:2]), k, v, s)
    if r < 0.31:
        return bytes_ty(rng.choice(BYTE_CONTAINERS))
    t = rng.choice(LEAVES)()
    if rng.random() < 0.25:
        t = t.opt(rng.choice(OPTION_SPELLINGS))
    return t


class NestedTy(Ty):
    """a reference to another family; the concrete type name depends on the release"""

    def __init__(self, fam, form):
        self.fam = fam
        self.form = form
        self.optional = form == "opt"
        self.kind = "nested"
        self.inner = None
        self.elem = None
        self.release = None

    def at(self, k):
        n = f"{self.fam.name}_V{k}"
        return {"plain": n, "opt": f"Option<{n}>", "vec": f"Vec<{n}>", "box": f"Box<{n}>", "tuple": f"(u8, {n})"}[self.form]

    @property
    def rust(self):
        raise RuntimeError("nested type needs a release")

    def default(self, r):
        # only forms with a release-independent default can be added later
        return {"opt": "None", "vec": "Vec::new()"}[self.form]

    def opt(self):
        raise RuntimeError("nested types are not made optional")


def rust_of(ty, k):
    return ty.at(k) if isinstance(ty, NestedTy) else ty.rust


def evolve(rec, rng, ctx, allow_removal=True, allow_container=False, allow_empty=False):
    """apply one random legal step to rec; returns a description or None"""
    kinds = ["add", "add", "opt", "remove", "transient"]
    if allow_container:
        kinds += ["container", "container", "container"]
    rng.shuffle(kinds)
    for kind in kinds:
        if kind == "add":
            name = rec.fresh_name(rng)
            ty = random_leaf(rng, ctx)
            if isinstance(ty, NestedTy) and ty.form not in ("opt", "vec"):
                ty = NestedTy(ty.fam, rng.choice(["opt", "vec"]))
            default = ty.default(rng)
            chunk = len(rec.steps) + 1
            f = Field(name, ty, chunk=chunk, default=default)
            if rec.positional:
                rec.fields.append(f)
            else:
                rec.fields.insert(rng.randint(0, len(rec.fields)), f)
            rec.used.add(name)
            rec.steps.append(("FieldAdded", name))
            return f"add {name}"
        if kind == "opt":
            cands = [f for f in rec.fields if f.transient is None and not f.ty.optional and not isinstance(f.ty, NestedTy)
                     and f.ty.kind == "plain"]
            if not cands:
                continue
            f = rng.choice(cands)
            f.ty = f.ty.opt(rng.choice(OPTION_SPELLINGS))
            if f.default is not None:
                f.default = f"Some({f.default})"
            rec.steps.append(("FieldMadeOptional", f.name))
            return f"opt {f.name}"
        if kind in ("remove", "transient"):
            if not allow_removal:
                continue
            cands = rec.last_in_chunk()
            if not cands or (len([f for f in rec.fields if f.transient is None]) <= 1 and not allow_empty):
                continue
            f = rng.choice(cands)
            rec.has_removal = True
            if kind == "remove":
                rec.fields.remove(f)
                rec.steps.append(("FieldRemoved", f.name))
                return f"remove {f.name}"
            else:
                if isinstance(f.ty, NestedTy):
                    continue
                f.transient = f.ty.default(rng)
                rec.steps.append(("FieldMadeTransient", f.name))
                return f"transient {f.name}"
        if kind == "container":
            cands = [f for f in rec.fields if f.transient is None and f.ty.kind in ("seq", "pairs", "bytes")]
            if not cands:
                continue
            f = rng.choice(cands)
            if f.ty.kind == "seq":
                e, s = f.ty.elem
                opts = [c for c in SEQ_CONTAINERS if c.format(e=e) != f.ty.rust]
                if e == "(u8, u16)":
                    opts = [c for c in opts if "HashSet" not in c or True]
                f.ty = seq_ty(rng.choice(opts), e, s)
            elif f.ty.kind == "pairs":
                k, v, s = f.ty.elem
                opts = [c for c in PAIR_CONTAINERS if c.format(k=k, v=v) != f.ty.rust]
                f.ty = pair_ty(rng.choice(opts), k, v, s)
            else:
                opts = [c for c in BYTE_CONTAINERS if c != f.ty.rust]
                f.ty = bytes_ty(rng.choice(opts))
            if f.default is not None:
                f.default = f.ty.default(rng)
            return f"container {f.name} -> {f.ty.rust}"
    return None


def zipped_ty():
    # a client codec that stores its bytes as a compressed frame (write_compressed through the context)
    return Ty("crate::catalog::Zipped", lambda r: r.choice(["crate::catalog::Zipped(Vec::new())", "crate::catalog::Zipped(vec![7u8; 40])",
                                                           "crate::catalog::Zipped(vec![1u8, 2, 3])"]))


def add_field(rec, rng, ty):
    name = rec.fresh_name(rng)
    default = ty.default(rng)
    f = Field(name, ty, chunk=len(rec.steps) + 1, default=default)
    rec.fields.insert(rng.randint(0, len(rec.fields)), f)
    rec.used.add(name)
    rec.steps.append(("FieldAdded", name))
    return f"add {name}: {ty.rust}"


def initial_record(rng, ctx, positional=False, nfields=None):
    rec = Record(positional)
    n = nfields if nfields is not None else rng.randint(1, 4)
    for _ in range(n):
        name = rec.fresh_name(rng)
        ty = random_leaf(rng, ctx)
        f = Field(name, ty)
        if rng.random() < 0.15 and not isinstance(ty, NestedTy):
            f.transient = ty.default(rng)
        rec.fields.append(f)
        rec.used.add(name)
    if all(f.transient is not None for f in rec.fields) and rec.fields:
        rec.fields[0].transient = None
    return rec


class Family:
    def __init__(self, name, kind):
        self.name = name
        self.kind = kind  # struct | enum
        self.versions = []  # per release: Record (struct) or list of ctor dicts (enum)
        self.tags = set()
        self.log = []
        self.sorted = False


def gen_struct(name, rng, ctx, flavour):
    fam = Family(name, "struct")
    fam.tags.add(flavour)
    if flavour == "containers":
        rec = Record()
        for j in range(rng.randint(2, 3)):
            nm = rec.fresh_name(rng)
            r = rng.random()
            if r < 0.6 or j == 0:
                # element types are dealt out round-robin over the container families so that every
                # one of them (including i8 and the zero-sized unit) occurs
                e, s = SEQ_ELEMS[ctx["next_elem"][0] % len(SEQ_ELEMS)]
                ctx["next_elem"][0] += 1
                ty = seq_ty(rng.choice(SEQ_CONTAINERS), e, s)
            elif r < 0.85:
                k, v, s = rng.choice(PAIR_ELEMS)
                ty = pair_ty(rng.choice(PAIR_CONTAINERS), k, v, s)
            else:
                ty = bytes_ty(rng.choice(BYTE_CONTAINERS))
            rec.fields.append(Field(nm, ty))
            rec.used.add(nm)
        nm = rec.fresh_name(rng)
        rec.fields.insert(rng.randint(0, len(rec.fields)), Field(nm, rng.choice(LEAVES)()))
        rec.used.add(nm)
    else:
        rec = initial_record(rng, ctx)
    if flavour == "zipped":
        nm = rec.fresh_name(rng)
        rec.fields.insert(rng.randint(0, len(rec.fields)), Field(nm, zipped_ty()))
        rec.used.add(nm)
    toplevel_only = flavour == "toplevel"
    # prehistory: families that may remove fields and are embedded start with at least one step, so
    # that every stored record carries sizes (DESIGN 9.1)
    pre = rng.randint(1, 3) if flavour in ("general", "nested", "zipped") else (rng.randint(0, 1) if flavour == "containers" else 0)
    for _ in range(pre):
        d = evolve(rec, rng, ctx, allow_removal=False)
        fam.log.append(f"pre: {d}")
    for k in range(RELEASES):
        if k > 0:
            if flavour == "zipped" and k in (2, 4):
                # a compressed frame inside an added chunk (written into the chunk buffer of the context)
                t = zipped_ty()
                fam.log.append(f"release {k}: {add_field(rec, rng, t if k == 2 else t.opt())}")
            elif rng.random() < (0.85 if flavour != "containers" else 0.9):
                d = evolve(rec, rng, ctx, allow_removal=(pre >= 1 or toplevel_only), allow_container=(flavour == "containers"))
                if flavour == "containers" and rng.random() < 0.5:
                    d2 = evolve(rec, rng, ctx, allow_removal=False, allow_container=True)
                    d = f"{d}; {d2}"
                fam.log.append(f"release {k}: {d}")
            else:
                fam.log.append(f"release {k}: no change")
        fam.versions.append(rec.clone())
    if toplevel_only:
        fam.tags.add("toplevel_only")
    return fam


def gen_struct_long(name, rng, ctx):
    """a record with two fields and a very long legal history: fields added and removed again, one
    pair of steps after the other, so that the stored version crosses 127/128 and reaches 254 (the library allows 255 entries including the initial version)"""
    fam = Family(name, "struct")
    fam.tags.add("long")
    rec = Record()
    rec.fields = [Field("id", lit_int("u32", 0, 2**32 - 1)), Field("tail", str_ty())]
    rec.used = {"id", "tail"}
    rec.has_removal = True
    counter = [0]

    def step():
        if len(rec.steps) % 2 == 0:
            nm = f"t{counter[0]}"
            counter[0] += 1
            ty = lit_int("u8", 0, 255)
            rec.fields.insert(1, Field(nm, ty, chunk=len(rec.steps) + 1, default=f"{counter[0] % 250}u8"))
            rec.used.add(nm)
            rec.steps.append(("FieldAdded", nm))
        else:
            f = rec.fields[1]
            rec.fields.remove(f)
            rec.steps.append(("FieldRemoved", f.name))

    for k, target in enumerate([100, 126, 127, 128, 200, 254]):
        while len(rec.steps) < target:
            step()
        fam.log.append(f"release {k}: {target} steps")
        fam.versions.append(rec.clone())
    return fam


def gen_struct_wide(name, rng, ctx):
    """a record with 70 fields from its first release on (anything that keeps per-field facts in a
    machine word meets more fields than bits), evolving like a general one"""
    fam = Family(name, "struct")
    fam.tags.add("wide")
    rec = Record()
    cyc = [lambda: lit_int("u8", 0, 255), lambda: Ty("bool", lambda r: r.choice(["true", "false"])), str_ty,
           lambda: lit_int("u8", 0, 255).opt(), lambda: lit_int("i16", -32768, 32767), lambda: lit_int("u32", 0, 2**32 - 1)]
    for i in range(70):
        nm = f"f{i}"
        rec.fields.append(Field(nm, cyc[i % len(cyc)]()))
        rec.used.add(nm)
    def step(kind):
        nonlocal rec
        for _ in range(50):
            trial = rec.clone()
            d = evolve(trial, rng, ctx, allow_removal=True)
            if d and d.startswith(kind):
                rec = trial
                return d
        return evolve(rec, rng, ctx, allow_removal=False)

    fam.log.append(f"pre: {step('add')}")
    for k, kind in enumerate(["", "add", "opt", "add", "remove", "add"]):
        if k > 0:
            fam.log.append(f"release {k}: {step(kind)}")
        fam.versions.append(rec.clone())
    return fam


def gen_enum_units(name, rng, ctx):
    """an enum of unit constructors only that later gains constructors with fields (the encoding of
    the old constructors must not depend on the shape of the whole enum)"""
    fam = Family(name, "enum")
    fam.tags.update(["enum", "units"])
    fam.sorted = rng.random() < 0.5
    pool = sorted(CTOR_NAMES) if fam.sorted else list(CTOR_NAMES)
    if not fam.sorted:
        rng.shuffle(pool)
    plain = dict(nestable=[], nested_used=ctx["nested_used"], next_elem=ctx["next_elem"])
    ctors = [dict(name=pool.pop(0), shape="unit", transient=False, rec=Record()) for _ in range(rng.randint(1, 3))]
    for k in range(RELEASES):
        if k in (2, 4):
            shape = "tuple" if k == 2 else "struct"
            rec = initial_record(rng, plain, positional=(shape == "tuple"), nfields=rng.randint(1, 2))
            c = dict(name=pool.pop(0), shape=shape, transient=False, rec=rec)
            ctors.append(c) if not fam.sorted else ctors.insert(rng.randint(0, len(ctors)), c)
            fam.log.append(f"release {k}: constructor {c['name']} ({shape}) added")
        elif k in (1, 3):
            c = dict(name=pool.pop(0), shape="unit", transient=False, rec=Record())
            ctors.append(c) if not fam.sorted else ctors.insert(rng.randint(0, len(ctors)), c)
            fam.log.append(f"release {k}: unit constructor {c['name']} added")
        fam.versions.append([dict(name=c["name"], shape=c["shape"], transient=False, rec=c["rec"].clone()) for c in ctors])
    return fam


def gen_enum_vanish(name, rng, ctx):
    """enum whose constructors lose their fields one by one until they are unit constructors that
    still carry a history (a unit variant with #[evolution(..)])"""
    fam = Family(name, "enum")
    fam.tags.update(["enum", "vanish"])
    pool = list(CTOR_NAMES)
    rng.shuffle(pool)
    plain = dict(nestable=[], nested_used=ctx["nested_used"], next_elem=ctx["next_elem"])

    def kind_step(rec, kind):
        for _ in range(200):
            trial = rec.clone()
            d = evolve(trial, rng, plain, allow_removal=True, allow_empty=True)
            if d and d.startswith(kind):
                return trial, d
        return rec, None

    ctors = [dict(name=pool.pop(0), shape="tuple", transient=False, rec=initial_record(rng, plain, positional=True, nfields=1))]
    for shape in ("struct", "tuple", "struct"):
        rec = initial_record(rng, plain, positional=(shape == "tuple"), nfields=1)
        for f in rec.fields:
            f.transient = None
        rec, d = kind_step(rec, "add")
        fam.log.append(f"pre: {d}")
        ctors.append(dict(name=pool.pop(0), shape=shape, transient=False, rec=rec))
    for f in ctors[0]["rec"].fields:
        f.transient = None
    for k in range(RELEASES):
        if k > 0:
            c = ctors[1 + (k - 1) % 3]
            c["rec"], d = kind_step(c["rec"], "remove")
            if not c["rec"].fields:
                c["shape"] = "unit"
            fam.log.append(f"release {k}: {c['name']}: {d}{' (now a unit constructor)' if c['shape'] == 'unit' else ''}")
        fam.versions.append([dict(name=c["name"], shape=c["shape"], transient=False, rec=c["rec"].clone()) for c in ctors])
    return fam


def gen_enum(name, rng, ctx):
    fam = Family(name, "enum")
    fam.tags.add("enum")
    fam.sorted = rng.random() < 0.5
    pool = list(CTOR_NAMES)
    if not fam.sorted:
        rng.shuffle(pool)
    # sorted enums take names in alphabetical order of the pool so that appended ones sort last
    if fam.sorted:
        pool = sorted(pool)
    ctors = []

    def new_ctor(transient=False):
        nm = pool.pop(0)
        shape = rng.choice(["unit", "tuple", "struct", "struct"])
        if shape == "unit":
            rec = Record()
        elif shape == "tuple":
            rec = initial_record(rng, ctx, positional=True, nfields=rng.randint(1, 3))
        else:
            rec = initial_record(rng, ctx, nfields=rng.randint(1, 3))
        if shape != "unit" and rng.random() < 0.6:
            # (a transient constructor may carry evolution steps as well; they are never used)
            for _ in range(rng.randint(1, 2)):
                evolve(rec, rng, ctx, allow_removal=False)
        # removals are only generated for records that carried a header from their first release
        # on (every stored record then has sizes, DESIGN 9.1)
        return dict(name=nm, shape=shape, transient=transient, rec=rec, removable=len(rec.steps) > 0)

    n0 = rng.randint(1, 3)
    for i in range(n0):
        ctors.append(new_ctor(transient=False))
    if rng.random() < 0.6:
        ctors.insert(rng.randint(0, len(ctors)), new_ctor(transient=True))
        if fam.sorted:
            # keep declaration order arbitrary but names must keep their alphabetical ranks: re-sort
            pass
    if not fam.sorted:
        pass
    else:
        # declaration order of a sorted enum is deliberately *not* alphabetical
        rng.shuffle(ctors)
    for k in range(RELEASES):
        if k > 0:
            r = rng.random()
            if r < 0.45 and pool:
                c = new_ctor(transient=rng.random() < 0.15)
                if fam.sorted:
                    ctors.insert(rng.randint(0, len(ctors)), c)  # any declaration position: rank is by name
                else:
                    ctors.append(c)
                fam.log.append(f"release {k}: constructor {c['name']} added")
            elif r < 0.9:
                cands = [c for c in ctors if not c["transient"]]
                if cands:
                    c = rng.choice(cands)
                    d = evolve(c["rec"], rng, ctx, allow_removal=c["removable"])
                    if c["shape"] == "unit" and c["rec"].fields:
                        c["shape"] = "struct"  # a unit constructor that gains a field
                    fam.log.append(f"release {k}: {c['name']}: {d}")
            else:
                fam.log.append(f"release {k}: no change")
        fam.versions.append([dict(name=c["name"], shape=c["shape"], transient=c["transient"], rec=c["rec"].clone()) for c in ctors])
    return fam


SHARED_TYPES = [
    ("u32", lambda ci, k: f"{100 + 7 * ci + k}u32"),
    ("String", lambda ci, k: '"d%d_%d".to_string()' % (ci, k)),
    ("i16", lambda ci, k: f"{-(3 + 11 * ci + k)}i16"),
    ("Option<u8>", lambda ci, k: "None" if (ci + k) % 3 == 0 else f"Some({10 + ci}u8)"),
    ("u64", lambda ci, k: f"{1000 + ci}u64"),
    ("bool", lambda ci, k: "true" if ci % 2 == 0 else "false"),
]
SHARED_NAMES = ["a", "b", "c", "d", "e", "f"]


def gen_enum_shared(name, rng, ctx):
    """enum whose constructors use the same field names (positional field<n> for tuple variants, a..f
    for struct variants) with the same types but their own FieldAdded defaults"""
    fam = Family(name, "enum")
    fam.tags.update(["enum", "shared"])
    pool = list(CTOR_NAMES)
    rng.shuffle(pool)
    ctors = []

    def new_ctor():
        ci = len(ctors)
        shape = rng.choice(["tuple", "struct"])
        rec = Record(positional=(shape == "tuple"))
        nm0 = "field0" if shape == "tuple" else SHARED_NAMES[0]
        rec.fields.append(Field(nm0, Ty(SHARED_TYPES[0][0], lambda r: "0u32")))
        rec.used.add(nm0)
        return dict(name=pool.pop(0), shape=shape, transient=False, rec=rec, removable=False, ci=ci)

    def grow(c):
        rec = c["rec"]
        i = len(rec.fields)
        if i >= len(SHARED_TYPES):
            return None
        nm = f"field{i}" if rec.positional else SHARED_NAMES[i]
        rust, dflt = SHARED_TYPES[i]
        d = dflt(c["ci"], len(rec.steps))
        ty = Ty(rust, lambda r, d=d: d, optional=rust.startswith("Option"))
        rec.fields.append(Field(nm, ty, chunk=len(rec.steps) + 1, default=d))
        rec.used.add(nm)
        rec.steps.append(("FieldAdded", nm))
        return f"add {nm} (default {d})"

    for _ in range(rng.randint(3, 4)):
        ctors.append(new_ctor())
    # prehistory: some constructors are already evolved at release 0
    for c in ctors:
        if rng.random() < 0.5:
            fam.log.append(f"pre: {c['name']}: {grow(c)}")
    for k in range(RELEASES):
        if k > 0:
            for c in rng.sample(ctors, 2):
                fam.log.append(f"release {k}: {c['name']}: {grow(c)}")
            if rng.random() < 0.3:
                c = new_ctor()
                ctors.append(c)
                fam.log.append(f"release {k}: constructor {c['name']} added")
        fam.versions.append([dict(name=c["name"], shape=c["shape"], transient=False, rec=c["rec"].clone()) for c in ctors])
    return fam


# ---- emission ------------------------------------------------------------------------------------

def attr_steps(rec):
    if not rec.steps:
        return ""
    parts = []
    for kind, name in rec.steps:
        if kind == "FieldAdded":
            f = next((f for f in rec.fields if f.name == name), None)
            default = f.default if f is not None else rec_removed_default(rec, name)
            parts.append(f'FieldAdded("{name}", {default})')
        else:
            parts.append(f'{kind}("{name}")')
    # one attribute per release is as legal as one attribute for all steps: split at a point that
    # depends on the steps themselves (so every version of a family may be spelled differently)
    k = sum(len(n) for _, n in rec.steps) % (len(parts) + 1)
    if 0 < k < len(parts):
        return "#[evolution(%s)] #[evolution(%s)]" % (", ".join(parts[:k]), ", ".join(parts[k:]))
    return "#[evolution(%s)]" % ", ".join(parts)


def rec_removed_default(rec, name):
    # the default of an added field that has since been removed is never used by this declaration;
    # it still has to be an expression
    return "()"


def emit_fields(rec, k, positional, public, fragments=None, salt=""):
    """`fragments`: a list that receives the field types, which are then spelled `$t<i>` (the
    declaration is emitted through a macro_rules whose `ty` fragments reach the derive macro inside
    invisible groups); optional field types are sometimes parenthesised (both are legal spellings)"""
    out = []
    for f in rec.fields:
        t = rust_of(f.ty, k)
        if getattr(f.ty, "optional", False) and sum(map(ord, salt + f.name)) % 5 == 0:
            t = f"({t})"
        if fragments is not None:
            fragments.append(t)
            t = f"$t{len(fragments) - 1}"
        tr = f"#[transient({f.transient})] " if f.transient is not None else ""
        if positional:
            out.append(f"{tr}{t}")
        else:
            out.append(f"{tr}{'pub ' if public else ''}{f.name}: {t}")
    return ", ".join(out)


def emit_recorddef(rec, k, name):
    steps = []
    for kind, n in rec.steps:
        steps.append({"FieldAdded": "Step::Added", "FieldMadeOptional": "Step::MadeOptional",
                      "FieldRemoved": "Step::Removed", "FieldMadeTransient": "Step::MadeTransient"}[kind] + f'("{n}".into())')
    fields = []
    for f in rec.fields:
        t = rust_of(f.ty, k)
        tr = f"Some(Bridge::to_val(&{{ let d: {t} = {f.transient}; d }}))" if f.transient is not None else "None"
        de = f"Some(Bridge::to_val(&{{ let d: {t} = {f.default}; d }}))" if f.default is not None else "None"
        fields.append(f'FieldDef {{ name: "{f.name}".into(), ty: <{t} as Bridge>::ty(), transient: {tr}, default: {de} }}')
    return 'RecordDef { name: "%s".into(), option_aware: true, steps: vec![%s], fields: vec![%s] }' % (name, ", ".join(steps), ", ".join(fields))


def emit_family(fam, out):
    for k, ver in enumerate(fam.versions):
        tname = f"{fam.name}_V{k}"
        if fam.kind == "struct":
            rec = ver
            a = attr_steps(rec)
            if sum(map(ord, fam.name)) % 3 == 0:
                # declared through a macro_rules: field types arrive as `ty` fragments
                frags = []
                body = emit_fields(rec, k, False, True, fragments=frags, salt=tname)
                params = ", ".join(f"$t{i}:ty" for i in range(len(frags)))
                out.append(f"macro_rules! decl_{tname} {{ ({params}) => {{ #[derive(BinaryCodec)] {a} pub struct {tname} {{ {body} }} }}; }}")
                out.append(f"decl_{tname}!({', '.join(frags)});")
            else:
                out.append("#[derive(BinaryCodec)]")
                if a:
                    out.append(a)
                out.append(f"pub struct {tname} {{ {emit_fields(rec, k, False, True, salt=tname)} }}")
            regs = "".join(f"<{rust_of(f.ty, k)} as Bridge>::register(reg); " for f in rec.fields)
            to_val = ", ".join(f"self.{f.name}.to_val()" for f in rec.fields)
            from_val = ", ".join(f"{f.name}: Bridge::from_val(&f[{i}])" for i, f in enumerate(rec.fields))
            out.append(f"""impl Bridge for {tname} {{
    fn ty() -> Ty {{ Ty::Adt("{tname}".into()) }}
    fn register(reg: &mut Registry) {{
        if reg.contains("{tname}") {{ return; }}
        reg.insert(AdtDef::Record({emit_recorddef(rec, k, tname)}));
        {regs}
    }}
    fn to_val(&self) -> Val {{ Val::Record(vec![{to_val}]) }}
    fn from_val(v: &Val) -> Self {{ let f = v.items(); let _ = f; {tname} {{ {from_val} }} }}
}}""")
        else:
            out.append("#[derive(BinaryCodec)]")
            if fam.sorted:
                out.append("#[sorted_constructors]")
            variants = []
            ctordefs = []
            to_arms = []
            from_arms = []
            regs = ""
            for i, c in enumerate(ver):
                rec = c["rec"]
                attrs = ""
                if c["transient"]:
                    a = attr_steps(rec)
                    # the evolution attribute in front of the transient mark, or behind it
                    if a and len(c["name"]) % 2 == 0:
                        attrs += a + " #[transient] "
                    elif a:
                        attrs += "#[transient] " + a + " "
                    else:
                        attrs += "#[transient] "
                else:
                    a = attr_steps(rec)
                    if a:
                        attrs += a + " "
                if c["shape"] == "unit":
                    variants.append(f"{attrs}{c['name']}")
                    pat = f"{tname}::{c['name']}"
                    cons = pat
                    vals = ""
                elif c["shape"] == "tuple":
                    variants.append(f"{attrs}{c['name']}({emit_fields(rec, k, True, False, salt=tname + c['name'])})")
                    binds = ", ".join(f.name for f in rec.fields)
                    pat = f"{tname}::{c['name']}({binds})"
                    cons = f"{tname}::{c['name']}(" + ", ".join(f"Bridge::from_val(&f[{j}])" for j in range(len(rec.fields))) + ")"
                    vals = ", ".join(f"{f.name}.to_val()" for f in rec.fields)
                else:
                    variants.append(f"{attrs}{c['name']} {{ {emit_fields(rec, k, False, False, salt=tname + c['name'])} }}")
                    binds = ", ".join(f.name for f in rec.fields)
                    pat = f"{tname}::{c['name']} {{ {binds} }}"
                    cons = f"{tname}::{c['name']} {{ " + ", ".join(f"{f.name}: Bridge::from_val(&f[{j}])" for j, f in enumerate(rec.fields)) + " }"
                    vals = ", ".join(f"{f.name}.to_val()" for f in rec.fields)
                to_arms.append(f"{pat} => Val::Enum({i}, vec![{vals}]),")
                from_arms.append(f"Val::Enum({i}, f) => {{ let _ = f; {cons} }}")
                ctordefs.append('CtorDef { name: "%s".into(), transient: %s, record: %s }' % (
                    c["name"], "true" if c["transient"] else "false", emit_recorddef(rec, k, c["name"])))
                regs += "".join(f"<{rust_of(f.ty, k)} as Bridge>::register(reg); " for f in rec.fields)
            out.append(f"pub enum {tname} {{ {', '.join(variants)} }}")
            out.append(f"""impl Bridge for {tname} {{
    fn ty() -> Ty {{ Ty::Adt("{tname}".into()) }}
    fn register(reg: &mut Registry) {{
        if reg.contains("{tname}") {{ return; }}
        reg.insert(AdtDef::Enum(EnumDef {{ name: "{tname}".into(), sorted: {"true" if fam.sorted else "false"}, ctors: vec![{", ".join(ctordefs)}] }}));
        {regs}
    }}
    fn to_val(&self) -> Val {{ match self {{ {" ".join(to_arms)} }} }}
    fn from_val(v: &Val) -> Self {{ match v {{ {", ".join(from_arms)}, o => panic!("bridge: {{o:?}}") }} }}
}}""")


def main():
    seed = int(sys.argv[1])
    outp = sys.argv[2]
    rng = random.Random(seed)
    fams = []
    ctx = dict(nestable=[], nested_used=set(), next_elem=[0])
    plan = (["general"] * 10 + ["enum"] * 5 + ["nested"] * 8 + ["containers"] * 8 + ["enum"] * 5 + ["nested"] * 4
            + ["toplevel"] * 4 + ["shared"] * 3 + ["zipped"] * 2 + ["long"] + ["wide"] + ["vanish"] * 2 + ["units"] * 2)
    exclude = set()
    for a in sys.argv[3:]:
        if a.startswith("--exclude="):
            exclude.update(x for x in a[len("--exclude="):].split(",") if x)
    counters = {}
    for flavour in plan:
        counters[flavour] = counters.get(flavour, 0) + 1
        prefix = {"general": "Gs", "enum": "En", "nested": "Ns", "containers": "Cs", "toplevel": "Ts", "shared": "Sh", "zipped": "Zp", "long": "Lg", "wide": "Wd", "vanish": "Vn", "units": "Un"}[flavour]
        name = f"{prefix}{counters[flavour]}"
        sub = random.Random(rng.getrandbits(64))
        c = dict(ctx)
        if flavour in ("general", "containers", "toplevel", "zipped"):
            c = dict(nestable=[], nested_used=ctx["nested_used"], next_elem=ctx["next_elem"])
        if flavour == "units":
            fam = gen_enum_units(name, sub, c)
        elif flavour == "vanish":
            fam = gen_enum_vanish(name, sub, c)
        elif flavour == "wide":
            fam = gen_struct_wide(name, sub, dict(nestable=[], nested_used=ctx["nested_used"], next_elem=ctx["next_elem"]))
        elif flavour == "long":
            fam = gen_struct_long(name, sub, c)
        elif flavour == "shared":
            fam = gen_enum_shared(name, sub, c)
        elif flavour == "enum":
            fam = gen_enum(name, sub, c if counters[flavour] > 5 else dict(nestable=[], nested_used=ctx["nested_used"], next_elem=ctx["next_elem"]))
        else:
            fam = gen_struct(name, sub, c, flavour)
        fams.append(fam)
        if "toplevel_only" not in fam.tags:
            ctx["nestable"].append(fam)
    if exclude:
        # families dropped by the supervisor (their derive output did not compile against the tree
        # under test), together with every family that embeds one of them
        def uses(fam):
            recs = []
            for ver in fam.versions:
                recs += [ver] if fam.kind == "struct" else [c["rec"] for c in ver]
            return {f.ty.fam.name for r in recs for f in r.fields if isinstance(f.ty, NestedTy)}
        changed = True
        while changed:
            changed = False
            for fam in fams:
                if fam.name not in exclude and uses(fam) & exclude:
                    exclude.add(fam.name)
                    changed = True
        fams = [f for f in fams if f.name not in exclude]
        print("excluded: " + ",".join(sorted(exclude)))
    out = ["// @generated by gen/families.py seed %d — do not edit" % seed,
           "#![allow(non_camel_case_types, unused_variables, unused_parens, unused_macros, clippy::all)]",
           "use crate::bridge::{Bridge, SliceOf, Streamed};", "use crate::catalog::{entry, Entry};",
           "use bytes::Bytes;", "use desert_macro::BinaryCodec;", "use model::evo::Families;",
           "use model::ty::*;", "use std::collections::{BTreeMap, BTreeSet, HashMap, HashSet, LinkedList};", ""]
    for fam in fams:
        out.append(f"// ---- family {fam.name} ({fam.kind}; {', '.join(sorted(fam.tags))}) ----")
        for line in fam.log:
            out.append(f"//   {line}")
        emit_family(fam, out)
        out.append("")
    out.append("pub struct FamilyInfo { pub name: &'static str, pub kind: &'static str, pub tags: &'static [&'static str], pub versions: usize, pub nested_elsewhere: bool }")
    out.append(f"pub const GENERATOR_SEED: u64 = {seed};")
    out.append(f"pub const RELEASES: usize = {RELEASES};")
    out.append("pub fn family_catalog(reg: &mut Registry) -> (Vec<Entry>, Families, Vec<FamilyInfo>) {")
    out.append("    let mut entries = Vec::new(); let mut fams = Families::default(); let mut infos = Vec::new();")
    for fam in fams:
        names = [f"{fam.name}_V{k}" for k in range(len(fam.versions))]
        for n in names:
            out.append(f'    entries.push(entry::<{n}>("{n}", reg));')
        if fam.kind == "enum":
            # sequences of the enum, written in the known-length form (Vec) and in the unknown-length
            # form (Streamed): constructor indices met inside a sequence (C13)
            for n in names:
                out.append(f'    entries.push(entry::<Vec<{n}>>("Vec<{n}>", reg));')
                out.append(f'    entries.push(entry::<crate::bridge::Streamed<{n}>>("Streamed<{n}>", reg));')
        out.append('    fams.add("%s", &[%s]);' % (fam.name, ", ".join(f'"{n}".to_string()' for n in names)))
        tags = ", ".join(f'"{t}"' for t in sorted(fam.tags))
        nested = "true" if fam.name in ctx["nested_used"] else "false"
        out.append(f'    infos.push(FamilyInfo {{ name: "{fam.name}", kind: "{fam.kind}", tags: &[{tags}], versions: {len(names)}, nested_elsewhere: {nested} }});')
    out.append("    (entries, fams, infos)")
    out.append("}")
    open(outp, "w").write("\n".join(out) + "\n")
    print(f"{len(fams)} families, {sum(len(f.versions) for f in fams)} declarations -> {outp}")


if __name__ == "__main__":
    main()
