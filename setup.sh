#!/bin/bash
# Builds the whole framework offline from files on disk (MANIFEST.setup_cmd).
set -e
export CARGO_NET_OFFLINE=true
cd /verif/sim
cargo build --offline --release -p harness
cargo build --offline --profile verifdev -p harness
python3 /verif/threads/gen_shadow.py /repo
(cd /verif/threads/shuttle && cargo build --offline --release)
(cd /verif/threads/miri && cargo build --offline --release && MIRIFLAGS="-Zmiri-disable-isolation" cargo +nightly miri run --offline -- nspecs >/dev/null)
echo "setup ok"
