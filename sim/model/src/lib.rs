//! Reference model of the desert binary format and of its schema-evolution semantics.
//! Independent of the library under test (depends only on third-party crates for date, time-zone
//! and big-number validity).
pub mod dec;
pub mod enc;
pub mod evo;
pub mod faults;
pub mod gen;
pub mod rng;
pub mod ty;

pub fn hex(b: &[u8]) -> String {
    let mut s = String::with_capacity(b.len() * 2);
    for x in b {
        s.push_str(&format!("{x:02x}"));
    }
    s
}

pub fn unhex(s: &str) -> Vec<u8> {
    (0..s.len() / 2).map(|i| u8::from_str_radix(&s[2 * i..2 * i + 2], 16).unwrap()).collect()
}
