//! The reference universe: a small dynamic description of every type the catalogue contains
//! (`Ty`), of values (`Val`) and of derived declarations (`RecordDef`, `EnumDef`), written from the
//! format description and sharing no code with the library.

use std::collections::BTreeMap;

#[derive(Clone, Debug, PartialEq, Eq, PartialOrd, Ord, Hash)]
pub enum SeqKind {
    Vec,
    List,
    HashSet,
    BTreeSet,
    Array(usize),
}

#[derive(Clone, Debug, PartialEq, Eq, PartialOrd, Ord, Hash)]
pub enum MapKind {
    Hash,
    BTree,
}

#[derive(Clone, Debug, PartialEq, Eq, PartialOrd, Ord, Hash)]
pub enum BytesKind {
    Vec,
    Buf,
    Array(usize),
}

#[derive(Clone, Debug, PartialEq, Eq, PartialOrd, Ord, Hash)]
pub enum Ty {
    U8,
    I8,
    U16,
    I16,
    U32,
    I32,
    U64,
    I64,
    U128,
    I128,
    F32,
    F64,
    Bool,
    Unit,
    Char,
    Str,
    /// `DeduplicatedString` (only outside evolved families)
    DedupStr,
    Duration,
    Opt(Box<Ty>),
    /// `Result<R, E>`: tag 1 -> Ok(R), tag 0 -> Err(E)
    Res(Box<Ty>, Box<Ty>),
    Tuple(Vec<Ty>),
    Seq(Box<Ty>, SeqKind),
    Map(Box<Ty>, Box<Ty>, MapKind),
    Bytes(BytesKind),
    /// Box / Rc / Arc: transparent
    Boxed(Box<Ty>),
    /// a client codec over the reference table: a count (unsigned varint), then per string either
    /// 0 and the string (a new object, which takes the next reference id) or the id of an earlier one
    SharedStrs,
    /// a byte block in a compressed frame (`write_compressed` / `read_compressed` of a client codec)
    Compressed,
    Uuid,
    Weekday,
    Month,
    FixedOffset,
    Tz,
    DateTimeUtc,
    NaiveDate,
    NaiveTime,
    NaiveDateTime,
    DateTimeLocal,
    DateTimeFixed,
    DateTimeTz,
    BigInt,
    BigDecimal,
    /// a derived declaration, looked up by name in the registry
    Adt(String),
}

impl Ty {
    pub fn opt(t: Ty) -> Ty {
        Ty::Opt(Box::new(t))
    }
    pub fn vec(t: Ty) -> Ty {
        Ty::Seq(Box::new(t), SeqKind::Vec)
    }
    pub fn is_opt(&self) -> bool {
        matches!(self, Ty::Opt(_))
    }
}

/// Values. Canonical forms: sets are sorted and deduplicated `Seq`s, maps are `Map`s sorted by key
/// with unique keys, floats are bit patterns, `Duration` is `Tuple[U(secs), U(nanos < 1e9)]`,
/// time types are tuples of their wire parts (see dec.rs).
#[derive(Clone, Debug, PartialEq, Eq, PartialOrd, Ord, Hash)]
pub enum Val {
    U(u128),
    I(i128),
    F32(u32),
    F64(u64),
    Bool(bool),
    Unit,
    Char(u16),
    Str(String),
    Bytes(Vec<u8>),
    None,
    Some(Box<Val>),
    Ok(Box<Val>),
    Err(Box<Val>),
    Tuple(Vec<Val>),
    Seq(Vec<Val>),
    Map(Vec<(Val, Val)>),
    /// fields in the declaration order of the definition the value belongs to (transient fields
    /// included)
    Record(Vec<Val>),
    /// constructor by *declaration* index of the definition the value belongs to
    Enum(usize, Vec<Val>),
}

impl Val {
    pub fn some(v: Val) -> Val {
        Val::Some(Box::new(v))
    }
    pub fn u(x: u128) -> Val {
        Val::U(x)
    }
    pub fn i(x: i128) -> Val {
        Val::I(x)
    }
    pub fn str(s: &str) -> Val {
        Val::Str(s.to_string())
    }
    pub fn as_u(&self) -> u128 {
        match self {
            Val::U(x) => *x,
            other => panic!("model: expected U, got {other:?}"),
        }
    }
    pub fn as_i(&self) -> i128 {
        match self {
            Val::I(x) => *x,
            other => panic!("model: expected I, got {other:?}"),
        }
    }
    pub fn as_str(&self) -> &str {
        match self {
            Val::Str(x) => x,
            other => panic!("model: expected Str, got {other:?}"),
        }
    }
    pub fn as_bytes(&self) -> &[u8] {
        match self {
            Val::Bytes(x) => x,
            other => panic!("model: expected Bytes, got {other:?}"),
        }
    }
    pub fn items(&self) -> &[Val] {
        match self {
            Val::Tuple(x) | Val::Seq(x) | Val::Record(x) => x,
            other => panic!("model: expected items, got {other:?}"),
        }
    }
    /// short rendering for traces and evidence samples
    pub fn brief(&self) -> String {
        let s = format!("{self:?}");
        if s.len() > 160 {
            format!("{}…", &s[..s.char_indices().take(160).last().map(|x| x.0).unwrap_or(0)])
        } else {
            s
        }
    }
}

/// canonical set: sorted, deduplicated
pub fn canon_set(mut xs: Vec<Val>) -> Val {
    xs.sort();
    xs.dedup();
    Val::Seq(xs)
}

/// canonical map: sorted by key, last value of a duplicated key wins (insertion semantics)
pub fn canon_map(xs: Vec<(Val, Val)>) -> Val {
    let mut m: BTreeMap<Val, Val> = BTreeMap::new();
    for (k, v) in xs {
        m.insert(k, v);
    }
    Val::Map(m.into_iter().collect())
}

#[derive(Clone, Debug, PartialEq, Eq)]
pub enum Step {
    Added(String),
    MadeOptional(String),
    Removed(String),
    MadeTransient(String),
}

#[derive(Clone, Debug, PartialEq, Eq)]
pub struct FieldDef {
    /// name as the macro sees it (`field0`, `field1`, … for tuple variants)
    pub name: String,
    /// declared type (an optional field has `Ty::Opt(..)`)
    pub ty: Ty,
    /// `#[transient(expr)]`: never on the wire, always this value after decoding
    pub transient: Option<Val>,
    /// default given by the `FieldAdded` step of this field
    pub default: Option<Val>,
}

/// One version of a record declaration: its evolution steps (the implicit initial step is not
/// listed) and its fields in declaration order.
#[derive(Clone, Debug, PartialEq, Eq)]
pub struct RecordDef {
    pub name: String,
    /// derived declarations read `Option` fields through the optional-field procedure; tuples read
    /// every member through the plain one
    pub option_aware: bool,
    pub steps: Vec<Step>,
    pub fields: Vec<FieldDef>,
}

impl RecordDef {
    pub fn version(&self) -> u8 {
        self.steps.len() as u8
    }
    /// chunk (= index of the `Added` step, counting the initial step as 0) of a field name
    pub fn generation(&self, name: &str) -> u8 {
        for (i, s) in self.steps.iter().enumerate() {
            if let Step::Added(n) = s {
                if n == name {
                    return (i + 1) as u8;
                }
            }
        }
        0
    }
    /// step index at which the field was made optional, 0 if never
    pub fn made_optional_at(&self, name: &str) -> u8 {
        let mut r = 0;
        for (i, s) in self.steps.iter().enumerate() {
            if let Step::MadeOptional(n) = s {
                if n == name {
                    r = (i + 1) as u8; // a later step overwrites (map insertion order)
                }
            }
        }
        r
    }
    /// names removed by a `Removed` step (`MadeTransient` is deliberately not in this set on the
    /// writer side of the library; see enc.rs)
    pub fn removed(&self) -> Vec<&str> {
        self.steps
            .iter()
            .filter_map(|s| if let Step::Removed(n) = s { Some(n.as_str()) } else { None })
            .collect()
    }
}

#[derive(Clone, Debug, PartialEq, Eq)]
pub struct CtorDef {
    pub name: String,
    pub transient: bool,
    /// fields and variant-level evolution steps; `name` of the record is the constructor name
    pub record: RecordDef,
}

#[derive(Clone, Debug, PartialEq, Eq)]
pub struct EnumDef {
    pub name: String,
    pub sorted: bool,
    /// declaration order
    pub ctors: Vec<CtorDef>,
}

impl EnumDef {
    /// declaration indices in wire-index order
    pub fn wire_order(&self) -> Vec<usize> {
        let mut idx: Vec<usize> = (0..self.ctors.len()).collect();
        if self.sorted {
            idx.sort_by(|a, b| self.ctors[*a].name.cmp(&self.ctors[*b].name));
        }
        idx
    }
}

#[derive(Clone, Debug, PartialEq, Eq)]
pub enum AdtDef {
    Record(RecordDef),
    Enum(EnumDef),
}

#[derive(Clone, Debug, Default)]
pub struct Registry {
    pub defs: BTreeMap<String, AdtDef>,
}

impl Registry {
    pub fn get(&self, name: &str) -> &AdtDef {
        self.defs
            .get(name)
            .unwrap_or_else(|| panic!("model: unknown ADT {name}"))
    }
    pub fn contains(&self, name: &str) -> bool {
        self.defs.contains_key(name)
    }
    pub fn insert(&mut self, def: AdtDef) {
        let name = match &def {
            AdtDef::Record(r) => r.name.clone(),
            AdtDef::Enum(e) => e.name.clone(),
        };
        self.defs.insert(name, def);
    }
}
