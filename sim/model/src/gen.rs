//! Seeded generation of values in the reference universe (boundary-biased).

use crate::dec::{bigdecimal_val, date_val, time_val};
use crate::rng::Rng;
use crate::ty::*;

pub struct Gen<'a> {
    pub reg: &'a Registry,
    pub size: usize,
    /// at most this many elements in hash containers (their iteration order is per-process random,
    /// so values *encoded by real code* keep it at 1; see DESIGN 3.5)
    pub max_hash_elems: usize,
    pub max_depth: usize,
    /// boundary mode (only for values written by the reference peer, never constructed as real
    /// values): parts at the very edge of what their type accepts and just beyond it - last
    /// representable days, offsets of almost a day, nanoseconds that carry, durations that overflow.
    /// The documented outcome of decoding them is whatever the strict decoder says (possibly an error).
    pub boundary: bool,
}

const WORDS: &[&str] = &[
    "", "a", "id", "name", "tag", "héllo", "日本語", "x y", "\u{0}", "zzzzzzzzzzzzzzzz",
    // also names of removed fields in the catalogue's headers
    "first", "second", "legacy", "older", "cache", "z",
];

impl<'a> Gen<'a> {
    pub fn new(reg: &'a Registry, size: usize) -> Self {
        Gen { reg, size, max_hash_elems: 1, max_depth: 6, boundary: false }
    }

    fn uint(&self, rng: &mut Rng, bits: u32) -> u128 {
        let max: u128 = if bits == 128 { u128::MAX } else { (1u128 << bits) - 1 };
        match rng.below(8) {
            0 => 0,
            1 => 1,
            2 => max,
            3 => max >> 1,
            4 => (max >> 1) + 1,
            5 => rng.below(300) as u128 & max,
            _ => {
                let x = ((rng.next_u64() as u128) << 64) | rng.next_u64() as u128;
                x & max
            }
        }
    }

    fn sint(&self, rng: &mut Rng, bits: u32) -> i128 {
        let u = self.uint(rng, bits);
        // sign-extend
        let shift = 128 - bits;
        ((u << shift) as i128) >> shift
    }

    fn string(&self, rng: &mut Rng) -> String {
        if rng.chance(1, 60) {
            // byte lengths around the width boundary of the zig-zag length prefix
            let n = *rng.pick(&[62usize, 63, 64, 65, 127, 128]);
            return (0..n).map(|_| (b'a' + rng.below(26) as u8) as char).collect();
        }
        match rng.below(4) {
            0 => rng.pick(WORDS).to_string(),
            1 => {
                let n = rng.usize_below(self.size.max(1) * 2 + 1);
                (0..n).map(|_| (b'a' + rng.below(26) as u8) as char).collect()
            }
            2 => {
                let n = rng.usize_below(self.size.max(1) + 1);
                (0..n)
                    .map(|_| loop {
                        let c = rng.below(0x3000) as u32;
                        if let Some(ch) = char::from_u32(c) {
                            break ch;
                        }
                    })
                    .collect()
            }
            _ => format!("{}{}", rng.pick(WORDS), rng.below(1000)),
        }
    }

    fn len(&self, rng: &mut Rng, depth: usize) -> usize {
        if depth >= self.max_depth {
            return 0;
        }
        if depth == 0 && rng.chance(1, 400) {
            // a long collection: hundreds of (often empty) inner values in one stream
            return *rng.pick(&[300usize, 700, 1000]);
        }
        if depth == 0 && rng.chance(1, 40) {
            // lengths whose zig-zag count needs two bytes, and the length of the long arrays
            return *rng.pick(&[63usize, 64, 65, 70]);
        }
        let cap = (self.size / (depth + 1)).clamp(1, 8);
        match rng.below(6) {
            0 => 0,
            1 => 1,
            _ => rng.usize_below(cap + 1),
        }
    }

    fn naive_date(&self, rng: &mut Rng) -> chrono::NaiveDate {
        if self.boundary && rng.chance(2, 3) {
            return *rng.pick(&[chrono::NaiveDate::MAX, chrono::NaiveDate::MIN]);
        }
        loop {
            let year = match rng.below(6) {
                0 => rng.range(-262_143, 262_142),
                1 => rng.range(-5, 5),
                _ => rng.range(1900, 2100),
            } as i32;
            let month = rng.range(1, 12) as u32;
            let day = rng.range(1, 31) as u32;
            if let Some(d) = chrono::NaiveDate::from_ymd_opt(year, month, day) {
                return d;
            }
        }
    }

    fn moderate_date(&self, rng: &mut Rng) -> chrono::NaiveDate {
        if self.boundary {
            return self.naive_date(rng);
        }
        loop {
            let year = rng.range(-9000, 9000) as i32;
            if let Some(d) =
                chrono::NaiveDate::from_ymd_opt(year, rng.range(1, 12) as u32, rng.range(1, 31) as u32)
            {
                return d;
            }
        }
    }

    fn naive_time(&self, rng: &mut Rng) -> chrono::NaiveTime {
        let (mut h, m, s) = (rng.below(24) as u32, rng.below(60) as u32, rng.below(60) as u32);
        if self.boundary && rng.chance(1, 2) {
            h = *rng.pick(&[0u32, 23]);
        }
        let n = match rng.below(4) {
            0 => 0,
            1 => 999_999_999,
            _ => rng.below(1_000_000_000) as u32,
        };
        if rng.chance(1, 10) {
            // leap second representation
            chrono::NaiveTime::from_hms_nano_opt(h, m, 59, 1_000_000_000 + n).unwrap()
        } else {
            chrono::NaiveTime::from_hms_nano_opt(h, m, s, n).unwrap()
        }
    }

    pub fn val(&self, ty: &Ty, rng: &mut Rng) -> Val {
        self.val_at(ty, rng, 0)
    }

    fn val_at(&self, ty: &Ty, rng: &mut Rng, depth: usize) -> Val {
        match ty {
            Ty::U8 => Val::U(self.uint(rng, 8)),
            Ty::U16 => Val::U(self.uint(rng, 16)),
            Ty::U32 => Val::U(self.uint(rng, 32)),
            Ty::U64 => Val::U(self.uint(rng, 64)),
            Ty::U128 => Val::U(self.uint(rng, 128)),
            Ty::I8 => Val::I(self.sint(rng, 8)),
            Ty::I16 => Val::I(self.sint(rng, 16)),
            Ty::I32 => Val::I(self.sint(rng, 32)),
            Ty::I64 => Val::I(self.sint(rng, 64)),
            Ty::I128 => Val::I(self.sint(rng, 128)),
            Ty::F32 => Val::F32(match rng.below(6) {
                0 => 0,
                1 => 0x8000_0000,
                2 => 0x7FC0_0001,
                3 => 0x7F80_0000,
                _ => rng.next_u64() as u32,
            }),
            Ty::F64 => Val::F64(match rng.below(6) {
                0 => 0,
                1 => 0x8000_0000_0000_0000,
                2 => 0x7FF8_0000_0000_0BAD,
                3 => 0xFFF0_0000_0000_0000,
                _ => rng.next_u64(),
            }),
            Ty::Bool => Val::Bool(rng.chance(1, 2)),
            Ty::Unit => Val::Unit,
            Ty::Char => Val::Char(loop {
                let c = match rng.below(5) {
                    0 => rng.below(128) as u16,
                    1 => 0xFFFF,
                    // boundaries of the UTF-8 / UTF-16 classes
                    2 => *rng.pick(&[0u16, 0x7F, 0x80, 0x7FF, 0x800, 0xD7FF, 0xE000, 0xFFFE, 0xFEFF]),
                    _ => rng.next_u64() as u16,
                };
                if !(0xD800..=0xDFFF).contains(&c) {
                    break c;
                }
            }),
            Ty::Str | Ty::DedupStr => Val::Str(self.string(rng)),
            Ty::SharedStrs => {
                let n = rng.usize_below(self.size.min(6) + 1);
                let pool: Vec<String> = (0..3).map(|_| self.string(rng)).collect();
                Val::Seq((0..n).map(|_| Val::Str(rng.pick(&pool).clone())).collect())
            }
            Ty::Duration if self.boundary => Val::Tuple(vec![
                Val::U(*rng.pick(&[u64::MAX as u128, u64::MAX as u128 - 1, u64::MAX as u128 - 4, 0])),
                Val::U(*rng.pick(&[999_999_999u128, 1_000_000_000, 1_999_999_999, 4_294_967_295, 4_000_000_000])),
            ]),
            Ty::Duration => Val::Tuple(vec![
                Val::U(self.uint(rng, 64)),
                Val::U(match rng.below(3) {
                    0 => 0,
                    1 => 999_999_999,
                    _ => rng.below(1_000_000_000) as u128,
                }),
            ]),
            Ty::Opt(t) => {
                if depth >= self.max_depth || rng.chance(1, 3) {
                    Val::None
                } else {
                    Val::some(self.val_at(t, rng, depth + 1))
                }
            }
            Ty::Res(ok, err) => {
                if rng.chance(1, 2) {
                    Val::Ok(Box::new(self.val_at(ok, rng, depth + 1)))
                } else {
                    Val::Err(Box::new(self.val_at(err, rng, depth + 1)))
                }
            }
            Ty::Tuple(tys) => Val::Tuple(tys.iter().map(|t| self.val_at(t, rng, depth + 1)).collect()),
            Ty::Seq(elem, kind) => {
                let n = match kind {
                    SeqKind::Array(n) => *n,
                    SeqKind::HashSet => self.len(rng, depth).min(self.max_hash_elems),
                    _ => self.len(rng, depth),
                };
                let items: Vec<Val> = (0..n).map(|_| self.val_at(elem, rng, depth + 1)).collect();
                match kind {
                    SeqKind::HashSet | SeqKind::BTreeSet => canon_set(items),
                    _ => Val::Seq(items),
                }
            }
            Ty::Map(k, v, kind) => {
                let n = match kind {
                    MapKind::Hash => self.len(rng, depth).min(self.max_hash_elems),
                    MapKind::BTree => self.len(rng, depth),
                };
                canon_map(
                    (0..n)
                        .map(|_| (self.val_at(k, rng, depth + 1), self.val_at(v, rng, depth + 1)))
                        .collect(),
                )
            }
            Ty::Bytes(kind) => {
                let n = match kind {
                    BytesKind::Array(n) => *n,
                    _ => match rng.below(5) {
                        0 => 0,
                        1 => 1,
                        2 => 127 + rng.usize_below(3),
                        _ => rng.usize_below(self.size * 4 + 1),
                    },
                };
                Val::Bytes(rng.bytes(n))
            }
            Ty::Boxed(t) => self.val_at(t, rng, depth),
            Ty::Compressed => {
                let n = match rng.below(4) {
                    0 => 0,
                    1 => 1,
                    _ => rng.usize_below(self.size * 16 + 1),
                };
                Val::Bytes(if rng.chance(1, 2) { vec![rng.next_u64() as u8; n] } else { rng.bytes(n) })
            }
            Ty::Uuid => Val::Bytes(match rng.below(6) {
                0 => vec![0u8; 16],
                1 => vec![0xFFu8; 16],
                _ => rng.bytes(16),
            }),
            Ty::Weekday => Val::U(rng.range(1, 7) as u128),
            Ty::Month => Val::U(rng.range(1, 12) as u128),
            Ty::FixedOffset => Val::I(match rng.below(6) {
                0 => 0,
                1 => 86_399,
                2 => -86_399,
                // width boundaries of the zig-zag varint
                3 => *rng.pick(&[-64i64, 63, 64, -65, -8192, 8191, 8192, -8193]),
                _ => rng.range(-86_399, 86_399),
            } as i128),
            Ty::Tz => {
                let tz = rng.pick(&chrono_tz::TZ_VARIANTS);
                Val::Str(tz.name().to_string())
            }
            Ty::DateTimeUtc if self.boundary => Val::Tuple(vec![
                Val::I(*rng.pick(&[i64::MAX as i128, i64::MIN as i128, 8_210_266_876_799, -8_334_601_228_800, 8_210_266_876_800, 59])),
                Val::U(*rng.pick(&[0u128, 999_999_999, 1_000_000_000, 1_999_999_999, 2_000_000_000, 4_294_967_295])),
            ]),
            Ty::DateTimeUtc => {
                let secs = match rng.below(4) {
                    0 => 0,
                    1 => rng.range(-8_000_000_000_000, 8_000_000_000_000),
                    _ => rng.range(-4_000_000_000, 4_000_000_000),
                };
                let nanos = rng.below(1_000_000_000) as u32;
                let dt = chrono::DateTime::<chrono::Utc>::from_timestamp(secs, nanos)
                    .unwrap_or_else(|| chrono::DateTime::<chrono::Utc>::from_timestamp(0, 0).unwrap());
                Val::Tuple(vec![
                    Val::I(dt.timestamp() as i128),
                    Val::U(dt.timestamp_subsec_nanos() as u128),
                ])
            }
            Ty::NaiveDate => date_val(&self.naive_date(rng)),
            Ty::NaiveTime => time_val(&self.naive_time(rng)),
            Ty::NaiveDateTime => {
                Val::Tuple(vec![date_val(&self.naive_date(rng)), time_val(&self.naive_time(rng))])
            }
            Ty::DateTimeLocal => {
                Val::Tuple(vec![date_val(&self.moderate_date(rng)), time_val(&self.naive_time(rng))])
            }
            Ty::DateTimeFixed => Val::Tuple(vec![
                Val::Tuple(vec![date_val(&self.moderate_date(rng)), time_val(&self.naive_time(rng))]),
                Val::I(rng.range(-86_399, 86_399) as i128),
            ]),
            Ty::DateTimeTz => {
                let tz = rng.pick(&chrono_tz::TZ_VARIANTS);
                Val::Tuple(vec![
                    Val::Tuple(vec![date_val(&self.moderate_date(rng)), time_val(&self.naive_time(rng))]),
                    Val::Str(tz.name().to_string()),
                ])
            }
            Ty::BigInt => {
                let n = rng.usize_below(20);
                let mut b = rng.bytes(n);
                if rng.chance(1, 4) {
                    // where the signed big-endian representation changes its length
                    b = rng.pick(&[vec![0x7Fu8], vec![0x00, 0x80], vec![0x80], vec![0xFF, 0x7F], vec![0x00, 0xFF], vec![0x01, 0x00], vec![0xFF], vec![]]).clone();
                }
                Val::Bytes(num_bigint::BigInt::from_signed_bytes_be(&b).to_signed_bytes_be())
            }
            Ty::BigDecimal => {
                let n = rng.usize_below(12);
                let b = rng.bytes(n);
                let d = bigdecimal::BigDecimal::new(
                    num_bigint::BigInt::from_signed_bytes_be(&b),
                    rng.range(-20, 20),
                );
                bigdecimal_val(&d)
            }
            Ty::Adt(name) => match self.reg.get(name) {
                AdtDef::Record(def) => Val::Record(self.fields(def, rng, depth)),
                AdtDef::Enum(def) => {
                    let live: Vec<usize> =
                        (0..def.ctors.len()).filter(|i| !def.ctors[*i].transient).collect();
                    let decl = *rng.pick(&live);
                    Val::Enum(decl, self.fields(&def.ctors[decl].record, rng, depth))
                }
            },
        }
    }

    fn fields(&self, def: &RecordDef, rng: &mut Rng, depth: usize) -> Vec<Val> {
        def.fields
            .iter()
            .map(|f| match &f.transient {
                Some(d) => d.clone(),
                None => self.val_at(&f.ty, rng, depth + 1),
            })
            .collect()
    }
}
