//! Reference encoder, used only to produce *peer traffic*: forms the Rust writer never emits
//! (unknown-length sequences, over-long varints) and records written by a conforming peer of
//! another version. It is never assumed that the library's bytes equal these (that would be C04).

use crate::rng::Rng;
use crate::ty::*;

pub struct Forms {
    /// probability (per mille) that a sequence is written in the unknown-length form
    pub unknown_seq_permille: u64,
    /// probability (per mille) that a varint is written one byte longer than needed
    pub overlong_varint_permille: u64,
    pub rng: Rng,
}

impl Forms {
    pub fn canonical() -> Self {
        Forms { unknown_seq_permille: 0, overlong_varint_permille: 0, rng: Rng::new(0) }
    }
    pub fn unknown_always() -> Self {
        Forms { unknown_seq_permille: 1000, overlong_varint_permille: 0, rng: Rng::new(0) }
    }
    pub fn mixed(rng: Rng) -> Self {
        Forms { unknown_seq_permille: 500, overlong_varint_permille: 100, rng }
    }
}

pub struct Encoder<'a> {
    pub reg: &'a Registry,
    pub forms: Forms,
    pub out: Vec<u8>,
    pub strings: Vec<String>,
    pub refs: Vec<String>,
}

pub fn ref_encode(reg: &Registry, ty: &Ty, val: &Val, forms: Forms) -> Vec<u8> {
    let mut e = Encoder { reg, forms, out: Vec::new(), strings: Vec::new(), refs: Vec::new() };
    e.encode(ty, val);
    e.out
}

impl<'a> Encoder<'a> {
    fn var_u32(&mut self, mut v: u32) {
        let overlong = self.forms.overlong_varint_permille > 0
            && self.forms.rng.chance(self.forms.overlong_varint_permille, 1000);
        let mut n = 0;
        loop {
            let b = (v & 0x7F) as u8;
            v >>= 7;
            n += 1;
            if v == 0 {
                if overlong && n < 5 {
                    self.out.push(b | 0x80);
                    self.out.push(0);
                } else {
                    self.out.push(b);
                }
                break;
            }
            self.out.push(b | 0x80);
        }
    }

    fn var_i32(&mut self, v: i32) {
        self.var_u32(((v << 1) ^ (v >> 31)) as u32)
    }

    fn fixed(&mut self, v: u128, n: usize) {
        let b = v.to_be_bytes();
        self.out.extend_from_slice(&b[16 - n..]);
    }

    fn string(&mut self, s: &str) {
        self.var_i32(s.len() as i32);
        self.out.extend_from_slice(s.as_bytes());
    }

    fn dedup_string(&mut self, s: &str) {
        if let Some(i) = self.strings.iter().position(|x| x == s) {
            self.var_i32(-((i + 1) as i32));
        } else {
            self.strings.push(s.to_string());
            self.string(s);
        }
    }

    fn seq(&mut self, elem: &Ty, items: &[Val]) {
        let unknown = self.forms.unknown_seq_permille > 0
            && self.forms.rng.chance(self.forms.unknown_seq_permille, 1000);
        if unknown {
            self.var_i32(-1);
            for it in items {
                self.out.push(1);
                self.encode(elem, it);
            }
            self.out.push(0);
        } else {
            self.var_i32(items.len() as i32);
            for it in items {
                self.encode(elem, it);
            }
        }
    }

    fn date(&mut self, v: &Val) {
        let p = v.items();
        self.var_u32(p[0].as_i() as i32 as u32);
        self.out.push(p[1].as_u() as u8);
        self.out.push(p[2].as_u() as u8);
    }

    fn time(&mut self, v: &Val) {
        let p = v.items();
        self.out.push(p[0].as_u() as u8);
        self.out.push(p[1].as_u() as u8);
        self.out.push(p[2].as_u() as u8);
        self.var_u32(p[3].as_u() as u32);
    }

    pub fn encode(&mut self, ty: &Ty, val: &Val) {
        match (ty, val) {
            (Ty::U8, Val::U(x)) => self.fixed(*x, 1),
            (Ty::U16, Val::U(x)) => self.fixed(*x, 2),
            (Ty::U32, Val::U(x)) => self.fixed(*x, 4),
            (Ty::U64, Val::U(x)) => self.fixed(*x, 8),
            (Ty::U128, Val::U(x)) => self.fixed(*x, 16),
            (Ty::I8, Val::I(x)) => self.fixed(*x as u128, 1),
            (Ty::I16, Val::I(x)) => self.fixed(*x as u128, 2),
            (Ty::I32, Val::I(x)) => self.fixed(*x as u128, 4),
            (Ty::I64, Val::I(x)) => self.fixed(*x as u128, 8),
            (Ty::I128, Val::I(x)) => self.fixed(*x as u128, 16),
            (Ty::F32, Val::F32(x)) => self.fixed(*x as u128, 4),
            (Ty::F64, Val::F64(x)) => self.fixed(*x as u128, 8),
            (Ty::Bool, Val::Bool(b)) => self.out.push(*b as u8),
            (Ty::Unit, Val::Unit) => {}
            (Ty::Char, Val::Char(c)) => self.fixed(*c as u128, 2),
            (Ty::Str, Val::Str(s)) => self.string(s),
            (Ty::DedupStr, Val::Str(s)) => self.dedup_string(s),
            (Ty::SharedStrs, Val::Seq(items)) => {
                // equal strings are one object
                self.var_u32(items.len() as u32);
                for it in items {
                    let s = match it {
                        Val::Str(s) => s,
                        o => panic!("model: shared string {o:?}"),
                    };
                    if let Some(i) = self.refs.iter().position(|x| x == s) {
                        self.var_u32(i as u32 + 1);
                    } else {
                        self.refs.push(s.clone());
                        self.var_u32(0);
                        self.string(s);
                    }
                }
            }
            (Ty::Duration, Val::Tuple(p)) => {
                self.fixed(p[0].as_u(), 8);
                self.fixed(p[1].as_u(), 4);
            }
            (Ty::Opt(_), Val::None) => self.out.push(0),
            (Ty::Opt(t), Val::Some(v)) => {
                self.out.push(1);
                self.encode(t, v)
            }
            (Ty::Res(t, _), Val::Ok(v)) => {
                self.out.push(1);
                self.encode(t, v)
            }
            (Ty::Res(_, t), Val::Err(v)) => {
                self.out.push(0);
                self.encode(t, v)
            }
            (Ty::Tuple(tys), Val::Tuple(vs)) => {
                self.out.push(0);
                for (t, v) in tys.iter().zip(vs) {
                    self.encode(t, v);
                }
            }
            (Ty::Seq(elem, _), Val::Seq(items)) => self.seq(elem, items),
            (Ty::Map(k, v, _), Val::Map(items)) => {
                let pair = Ty::Tuple(vec![(**k).clone(), (**v).clone()]);
                let items: Vec<Val> =
                    items.iter().map(|(a, b)| Val::Tuple(vec![a.clone(), b.clone()])).collect();
                self.seq(&pair, &items)
            }
            (Ty::Bytes(_), Val::Bytes(b)) | (Ty::BigInt, Val::Bytes(b)) => {
                self.var_u32(b.len() as u32);
                self.out.extend_from_slice(b);
            }
            (Ty::Boxed(t), v) => self.encode(t, v),
            (Ty::Compressed, Val::Bytes(b)) => {
                use std::io::Read;
                let mut z = Vec::new();
                flate2::read::DeflateEncoder::new(&b[..], flate2::Compression::default()).read_to_end(&mut z).unwrap();
                self.var_u32(b.len() as u32);
                self.var_u32(z.len() as u32);
                self.out.extend_from_slice(&z);
            }
            (Ty::Uuid, Val::Bytes(b)) => self.out.extend_from_slice(b),
            (Ty::Weekday, Val::U(x)) | (Ty::Month, Val::U(x)) => self.out.push(*x as u8),
            (Ty::FixedOffset, Val::I(x)) => {
                self.out.push(0);
                self.var_i32(*x as i32);
            }
            (Ty::Tz, Val::Str(s)) => {
                self.out.push(1);
                self.string(s);
            }
            (Ty::DateTimeUtc, Val::Tuple(p)) => {
                self.fixed(p[0].as_i() as u128, 8);
                self.fixed(p[1].as_u(), 4);
            }
            (Ty::NaiveDate, v) => self.date(v),
            (Ty::NaiveTime, v) => self.time(v),
            (Ty::NaiveDateTime, Val::Tuple(p)) | (Ty::DateTimeLocal, Val::Tuple(p)) => {
                self.date(&p[0]);
                self.time(&p[1]);
            }
            (Ty::DateTimeFixed, Val::Tuple(p)) => {
                let n = p[0].items();
                self.date(&n[0]);
                self.time(&n[1]);
                self.out.push(0);
                self.var_i32(p[1].as_i() as i32);
            }
            (Ty::DateTimeTz, Val::Tuple(p)) => {
                let n = p[0].items();
                self.date(&n[0]);
                self.time(&n[1]);
                self.out.push(1);
                self.string(p[1].as_str());
            }
            (Ty::BigDecimal, Val::Tuple(p)) => {
                let n = num_bigint::BigInt::from_signed_bytes_be(p[0].as_bytes());
                let d = bigdecimal::BigDecimal::new(n, p[1].as_i() as i64);
                self.string(&d.to_string());
            }
            (Ty::Adt(name), v) => {
                let reg = self.reg;
                match (reg.get(name), v) {
                    (AdtDef::Record(def), Val::Record(fs)) => self.record(def, fs),
                    (AdtDef::Enum(def), Val::Enum(decl, fs)) => {
                        self.out.push(0);
                        let order = def.wire_order();
                        let idx = order.iter().position(|d| d == decl).unwrap();
                        self.var_u32(idx as u32);
                        self.record(&def.ctors[*decl].record, fs);
                    }
                    (d, v) => panic!("model: cannot encode {v:?} as {d:?}"),
                }
            }
            (t, v) => panic!("model: cannot encode {v:?} as {t:?}"),
        }
    }

    pub fn record(&mut self, def: &RecordDef, fields: &[Val]) {
        let ver = def.version();
        self.out.push(ver);
        if ver == 0 {
            for (f, v) in def.fields.iter().zip(fields) {
                if f.transient.is_none() {
                    self.encode(&f.ty, v);
                }
            }
            return;
        }
        // The reader meets the header before the chunks, so the names in it get their string ids
        // first - in header order - and whatever deduplicated strings the fields hold come after.
        for s in &def.steps {
            let name = match s {
                Step::Removed(n) | Step::MadeTransient(n) => Some(n),
                Step::MadeOptional(n) if !def.fields.iter().any(|f| f.name == *n && f.transient.is_none()) => Some(n),
                _ => None,
            };
            if let Some(n) = name {
                if !self.strings.iter().any(|x| x == n) {
                    self.strings.push(n.clone());
                }
            }
        }
        // chunks
        let mut chunks: Vec<Vec<u8>> = vec![Vec::new(); ver as usize + 1];
        let mut positions: Vec<(String, u8, u8)> = Vec::new();
        let mut counts = vec![0u8; ver as usize + 1];
        for (f, v) in def.fields.iter().zip(fields) {
            if f.transient.is_some() {
                continue;
            }
            let c = def.generation(&f.name) as usize;
            let saved = std::mem::take(&mut self.out);
            self.encode(&f.ty, v);
            let bytes = std::mem::replace(&mut self.out, saved);
            chunks[c].extend_from_slice(&bytes);
            positions.push((f.name.clone(), c as u8, counts[c]));
            counts[c] += 1;
        }
        // header
        self.var_i32(chunks[0].len() as i32);
        for (i, s) in def.steps.iter().enumerate() {
            match s {
                Step::Added(_) => self.var_i32(chunks[i + 1].len() as i32),
                Step::MadeOptional(name) => match positions.iter().find(|p| p.0 == *name) {
                    Some((_, c, p)) => {
                        self.var_i32(-1);
                        let byte = if *c == 0 { (*p as i8).wrapping_neg() as u8 } else { *c };
                        self.out.push(byte);
                    }
                    None => {
                        self.var_i32(-2);
                        self.string(name);
                        if !self.strings.iter().any(|x| x == name) {
                            self.strings.push(name.clone());
                        }
                    }
                },
                Step::Removed(name) | Step::MadeTransient(name) => {
                    self.var_i32(-2);
                    // a conforming peer may always spell a name out in full
                    self.string(name);
                    if !self.strings.iter().any(|x| x == name) {
                        self.strings.push(name.clone());
                    }
                }
            }
        }
        for c in chunks {
            self.out.extend_from_slice(&c);
        }
    }
}
