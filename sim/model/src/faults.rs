//! Fault catalogue on byte streams (DESIGN section 5). Every fault is a pure function of the
//! bytes, the parse tree of the undamaged record and the `faults` PRNG stream.

use crate::dec::{Mark, Role};
use crate::rng::Rng;

#[derive(Clone, Copy, Debug, PartialEq, Eq, PartialOrd, Ord, Hash)]
pub enum FaultKind {
    Cut,
    Stale,
    Flip,
    Frame,
    Splice,
    Dup,
    Zero,
    Garbage,
    /// not a storage fault: a conforming peer wrote parts at (and just beyond) the edge of their type
    Boundary,
}

pub const ALL_KINDS: &[FaultKind] = &[
    FaultKind::Cut,
    FaultKind::Stale,
    FaultKind::Flip,
    FaultKind::Frame,
    FaultKind::Splice,
    FaultKind::Dup,
    FaultKind::Zero,
    FaultKind::Garbage,
];

impl FaultKind {
    pub fn name(&self) -> &'static str {
        match self {
            FaultKind::Cut => "F-cut",
            FaultKind::Stale => "F-stale",
            FaultKind::Flip => "F-flip",
            FaultKind::Frame => "F-frame",
            FaultKind::Splice => "F-splice",
            FaultKind::Dup => "F-dup",
            FaultKind::Zero => "F-zero",
            FaultKind::Garbage => "F-garbage",
            FaultKind::Boundary => "P-boundary",
        }
    }
}

#[derive(Clone, Debug)]
pub struct Applied {
    pub kind: FaultKind,
    pub detail: String,
}

fn enc_var_u32(mut v: u32) -> Vec<u8> {
    let mut out = Vec::new();
    loop {
        let b = (v & 0x7F) as u8;
        v >>= 7;
        if v == 0 {
            out.push(b);
            break;
        }
        out.push(b | 0x80);
    }
    out
}

fn enc_var_i32(v: i32) -> Vec<u8> {
    enc_var_u32(((v << 1) ^ (v >> 31)) as u32)
}

fn new_value(old: i64, rng: &mut Rng) -> i64 {
    match rng.below(12) {
        0 => 0,
        1 => old + 1,
        2 => old - 1,
        3 => old * 2,
        4 => -old,
        5 => -1,
        6 => -2,
        7 => i32::MAX as i64,
        8 => i32::MIN as i64,
        9 => old + rng.range(2, 40),
        10 => (old - rng.range(2, 40)).max(-3),
        _ => rng.range(-300, 70_000),
    }
}

/// Rewrites one framing element of `rec` (marks are relative to `rec`).
pub fn frame(rec: &mut Vec<u8>, marks: &[Mark], rng: &mut Rng, prefer_nested: bool) -> Option<Applied> {
    let framing: Vec<&Mark> = marks
        .iter()
        .filter(|m| m.role != Role::Payload && m.len > 0 && m.off + m.len <= rec.len())
        .collect();
    if framing.is_empty() {
        return None;
    }
    let pool: Vec<&Mark> = if prefer_nested {
        let maxd = framing.iter().map(|m| m.depth).max().unwrap();
        let deep: Vec<&Mark> = framing
            .iter()
            .copied()
            .filter(|m| {
                m.depth == maxd
                    && matches!(m.role, Role::ChunkSize | Role::Position | Role::Version | Role::Count | Role::StepCode | Role::CtorIdx | Role::RefId)
            })
            .collect();
        if deep.is_empty() {
            framing
        } else {
            deep
        }
    } else {
        framing
    };
    let m = (*rng.pick(&pool)).clone();
    // a varint continuation bit?
    if m.len >= 1 && rng.chance(1, 8) {
        let i = m.off + rng.usize_below(m.len);
        rec[i] ^= 0x80;
        return Some(Applied {
            kind: FaultKind::Frame,
            detail: format!("continuation bit of {:?}@{} (byte {})", m.role, m.off, i),
        });
    }
    let nv = new_value(m.value, rng);
    let bytes = match m.role {
        Role::Version | Role::Position | Role::OptTag | Role::ResTag | Role::ItemFlag | Role::TypeTag => {
            vec![nv as u8]
        }
        Role::BytesLen | Role::CtorIdx | Role::RefId => enc_var_u32(nv as u32),
        _ => enc_var_i32(nv as i32),
    };
    if bytes[..] == rec[m.off..m.off + m.len] {
        return None;
    }
    rec.splice(m.off..m.off + m.len, bytes);
    Some(Applied {
        kind: FaultKind::Frame,
        detail: format!("{:?}@{} depth {}: {} -> {}", m.role, m.off, m.depth, m.value, nv),
    })
}

pub fn flip(rec: &mut [u8], rng: &mut Rng) -> Option<Applied> {
    if rec.is_empty() {
        return None;
    }
    let n = 1 + rng.usize_below(4);
    let mut d = Vec::new();
    for _ in 0..n {
        let i = rng.usize_below(rec.len());
        let b = rng.below(8) as u8;
        rec[i] ^= 1 << b;
        d.push(format!("{i}.{b}"));
    }
    Some(Applied { kind: FaultKind::Flip, detail: d.join(",") })
}

pub fn splice(rec: &mut Vec<u8>, rng: &mut Rng) -> Option<Applied> {
    if rec.len() < 2 {
        return None;
    }
    if rng.chance(1, 2) {
        // delete a range
        let a = rng.usize_below(rec.len());
        let n = 1 + rng.usize_below((rec.len() - a).min(16));
        rec.drain(a..a + n);
        Some(Applied { kind: FaultKind::Splice, detail: format!("delete {a}+{n}") })
    } else {
        // insert a copy of another range
        let a = rng.usize_below(rec.len());
        let n = 1 + rng.usize_below((rec.len() - a).min(16));
        let at = rng.usize_below(rec.len() + 1);
        let copy = rec[a..a + n].to_vec();
        rec.splice(at..at, copy);
        Some(Applied { kind: FaultKind::Splice, detail: format!("insert copy of {a}+{n} at {at}") })
    }
}

pub fn dup(rec: &mut Vec<u8>, rng: &mut Rng) -> Option<Applied> {
    if rec.is_empty() {
        return None;
    }
    let a = rng.usize_below(rec.len());
    let n = 1 + rng.usize_below((rec.len() - a).min(32));
    let copy = rec[a..a + n].to_vec();
    rec.splice(a + n..a + n, copy);
    Some(Applied { kind: FaultKind::Dup, detail: format!("duplicate {a}+{n} in place") })
}

pub fn zero(rec: &mut [u8], rng: &mut Rng) -> Option<Applied> {
    if rec.is_empty() {
        return None;
    }
    let block = *rng.pick(&[8usize, 16, 64]);
    let nblocks = rec.len().div_ceil(block);
    let b = rng.usize_below(nblocks);
    let lo = b * block;
    let hi = (lo + block).min(rec.len());
    if rec[lo..hi].iter().all(|x| *x == 0) {
        return None;
    }
    for x in &mut rec[lo..hi] {
        *x = 0;
    }
    Some(Applied { kind: FaultKind::Zero, detail: format!("zero block {lo}..{hi}") })
}

pub fn cut(rec: &mut Vec<u8>, rng: &mut Rng) -> Option<Applied> {
    if rec.is_empty() {
        return None;
    }
    let k = rng.usize_below(rec.len());
    rec.truncate(k);
    Some(Applied { kind: FaultKind::Cut, detail: format!("keep first {k} bytes") })
}

pub fn garbage(rng: &mut Rng, max: usize) -> Vec<u8> {
    let n = match rng.below(4) {
        0 => rng.usize_below(8),
        1 => rng.usize_below(32),
        _ => rng.usize_below(max + 1),
    };
    let mut v = rng.bytes(n);
    // bias towards small numbers, which are what framing bytes look like
    if rng.chance(1, 2) {
        for x in v.iter_mut() {
            if rng.chance(1, 2) {
                *x = (rng.below(12) as u8).wrapping_sub(3);
            }
        }
    }
    v
}

/// applies one fault of `kind` to a record; `None` when the fault does not apply or changes nothing
pub fn apply(kind: FaultKind, rec: &mut Vec<u8>, marks: &[Mark], rng: &mut Rng) -> Option<Applied> {
    let before = rec.clone();
    let r = match kind {
        FaultKind::Cut => cut(rec, rng),
        FaultKind::Flip => flip(rec, rng),
        FaultKind::Frame => {
            let nested = rng.chance(1, 2);
            frame(rec, marks, rng, nested)
        }
        FaultKind::Splice => splice(rec, rng),
        FaultKind::Dup => dup(rec, rng),
        FaultKind::Zero => zero(rec, rng),
        FaultKind::Stale | FaultKind::Garbage | FaultKind::Boundary => None, // applied by the engine
    };
    if *rec == before {
        return None;
    }
    r
}
