//! Evolution semantics `expected(H, w, r, v)` (DESIGN 4.4), written from the documentation of the
//! evolution steps, in terms of *histories and values* — it never looks at bytes and shares no
//! code with the library or with the strict decoder.

use crate::ty::*;
use std::collections::BTreeMap;

#[derive(Clone, Debug, PartialEq, Eq)]
pub enum ExpErr {
    /// a required field of the reader was removed before the writer's version
    FieldRemoved(String),
    /// a required field of the reader was written as absent by a writer for which it is optional
    SerializedAsNone(String),
    /// the writer's constructor is unknown to (or transient in) the reader
    UnknownCtor(String),
    /// a fixed-size array target of another length
    ArrayLen,
    /// an added field without default (not generated for legal histories)
    NoDefault(String),
}

/// Which declarations are versions of the same thing: name -> (family, version), family -> names
#[derive(Clone, Debug, Default)]
pub struct Families {
    pub of: BTreeMap<String, (String, usize)>,
    pub versions: BTreeMap<String, Vec<String>>,
}

impl Families {
    pub fn add(&mut self, family: &str, names: &[String]) {
        for (i, n) in names.iter().enumerate() {
            self.of.insert(n.clone(), (family.to_string(), i));
        }
        self.versions.insert(family.to_string(), names.to_vec());
    }
    pub fn latest<'a>(&self, reg: &'a Registry, name: &str) -> &'a AdtDef {
        let (fam, _) = &self.of[name];
        reg.get(self.versions[fam].last().unwrap())
    }
}

pub struct Evo<'a> {
    pub reg: &'a Registry,
    pub fams: &'a Families,
}

impl<'a> Evo<'a> {
    /// value `v` of writer type `tw`, as a reader declaring `tr` must see it
    pub fn convert(&self, tw: &Ty, tr: &Ty, v: &Val) -> Result<Val, ExpErr> {
        match (tw, tr, v) {
            (Ty::Boxed(a), b, v) => self.convert(a, b, v),
            (a, Ty::Boxed(b), v) => self.convert(a, b, v),
            (Ty::Adt(a), Ty::Adt(b), v) => self.adt(a, b, v),
            (Ty::Opt(_), Ty::Opt(_), Val::None) => Ok(Val::None),
            (Ty::Opt(a), Ty::Opt(b), Val::Some(x)) => Ok(Val::some(self.convert(a, b, x)?)),
            (Ty::Res(a, _), Ty::Res(b, _), Val::Ok(x)) => Ok(Val::Ok(Box::new(self.convert(a, b, x)?))),
            (Ty::Res(_, a), Ty::Res(_, b), Val::Err(x)) => Ok(Val::Err(Box::new(self.convert(a, b, x)?))),
            (Ty::Tuple(a), Ty::Tuple(b), Val::Tuple(xs)) if a.len() == b.len() => Ok(Val::Tuple(
                a.iter()
                    .zip(b)
                    .zip(xs)
                    .map(|((a, b), x)| self.convert(a, b, x))
                    .collect::<Result<_, _>>()?,
            )),
            (Ty::Seq(a, _), Ty::Seq(b, kb), Val::Seq(xs)) => {
                let items: Vec<Val> =
                    xs.iter().map(|x| self.convert(a, b, x)).collect::<Result<_, _>>()?;
                match kb {
                    SeqKind::Vec | SeqKind::List => Ok(Val::Seq(items)),
                    SeqKind::HashSet | SeqKind::BTreeSet => Ok(canon_set(items)),
                    SeqKind::Array(n) => {
                        if items.len() == *n {
                            Ok(Val::Seq(items))
                        } else {
                            Err(ExpErr::ArrayLen)
                        }
                    }
                }
            }
            // a list of pairs read as a map
            (Ty::Seq(a, _), Ty::Map(k, vv, _), Val::Seq(xs)) => {
                let pair = Ty::Tuple(vec![(**k).clone(), (**vv).clone()]);
                let mut out = Vec::new();
                for x in xs {
                    match self.convert(a, &pair, x)? {
                        Val::Tuple(mut kv) => {
                            let v = kv.pop().unwrap();
                            let k = kv.pop().unwrap();
                            out.push((k, v));
                        }
                        _ => unreachable!(),
                    }
                }
                Ok(canon_map(out))
            }
            // a map read as a list of pairs (in the writer's order: only for ordered maps)
            (Ty::Map(k, vv, _), Ty::Seq(b, kb), Val::Map(xs)) => {
                let pair = Ty::Tuple(vec![(**k).clone(), (**vv).clone()]);
                let items: Vec<Val> = xs
                    .iter()
                    .map(|(k, v)| self.convert(&pair, b, &Val::Tuple(vec![k.clone(), v.clone()])))
                    .collect::<Result<_, _>>()?;
                match kb {
                    SeqKind::HashSet | SeqKind::BTreeSet => Ok(canon_set(items)),
                    SeqKind::Array(n) if items.len() != *n => Err(ExpErr::ArrayLen),
                    _ => Ok(Val::Seq(items)),
                }
            }
            (Ty::Map(ka, va, _), Ty::Map(kb, vb, _), Val::Map(xs)) => Ok(canon_map(
                xs.iter()
                    .map(|(k, v)| Ok((self.convert(ka, kb, k)?, self.convert(va, vb, v)?)))
                    .collect::<Result<_, ExpErr>>()?,
            )),
            (Ty::Bytes(_), Ty::Bytes(kb), Val::Bytes(b)) => match kb {
                BytesKind::Array(n) if b.len() != *n => Err(ExpErr::ArrayLen),
                _ => Ok(Val::Bytes(b.clone())),
            },
            (a, b, v) if a == b => Ok(v.clone()),
            (a, b, v) => panic!("model: no conversion from {a:?} to {b:?} for {v:?}"),
        }
    }

    fn adt(&self, a: &str, b: &str, v: &Val) -> Result<Val, ExpErr> {
        if a == b && !self.fams.of.contains_key(a) {
            // not a versioned family: still convert field-wise (nested families inside)
            return self.adt_same(a, v);
        }
        let latest = self.fams.latest(self.reg, a);
        match (self.reg.get(a), self.reg.get(b), latest, v) {
            (AdtDef::Record(dw), AdtDef::Record(dr), AdtDef::Record(dl), Val::Record(fs)) => {
                Ok(Val::Record(self.fields(dw, dr, dl, fs)?))
            }
            (AdtDef::Enum(ew), AdtDef::Enum(er), AdtDef::Enum(el), Val::Enum(decl, fs)) => {
                let cw = &ew.ctors[*decl];
                let Some(ri) = er.ctors.iter().position(|c| c.name == cw.name) else {
                    return Err(ExpErr::UnknownCtor(cw.name.clone()));
                };
                let cr = &er.ctors[ri];
                if cr.transient {
                    return Err(ExpErr::UnknownCtor(cw.name.clone()));
                }
                let cl = el.ctors.iter().find(|c| c.name == cw.name).unwrap();
                Ok(Val::Enum(ri, self.fields(&cw.record, &cr.record, &cl.record, fs)?))
            }
            (dw, dr, _, v) => panic!("model: adt conversion mismatch {dw:?} {dr:?} {v:?}"),
        }
    }

    fn adt_same(&self, a: &str, v: &Val) -> Result<Val, ExpErr> {
        match (self.reg.get(a), v) {
            (AdtDef::Record(d), Val::Record(fs)) => Ok(Val::Record(self.fields(d, d, d, fs)?)),
            (AdtDef::Enum(e), Val::Enum(decl, fs)) => {
                let c = &e.ctors[*decl];
                Ok(Val::Enum(*decl, self.fields(&c.record, &c.record, &c.record, fs)?))
            }
            (d, v) => panic!("model: adt mismatch {d:?} {v:?}"),
        }
    }

    /// `dw`/`dr`: declarations of writer and reader, `dl`: latest declaration (the whole history)
    fn fields(
        &self,
        dw: &RecordDef,
        dr: &RecordDef,
        dl: &RecordDef,
        fs: &[Val],
    ) -> Result<Vec<Val>, ExpErr> {
        let w = dw.steps.len();
        let r = dr.steps.len();
        debug_assert!(dl.steps.len() >= w && dl.steps.len() >= r);
        debug_assert!(dl.steps[..w] == dw.steps[..] && dl.steps[..r] == dr.steps[..]);
        let h = &dl.steps;
        let mut out = Vec::new();
        for f in &dr.fields {
            if let Some(d) = &f.transient {
                out.push(d.clone());
                continue;
            }
            // step numbers: 0 = initial version, i+1 = after steps[i]
            let added_at = h
                .iter()
                .position(|s| matches!(s, Step::Added(n) if *n == f.name))
                .map(|i| i + 1)
                .unwrap_or(0);
            let gone_at = h
                .iter()
                .position(|s| matches!(s, Step::Removed(n) | Step::MadeTransient(n) if *n == f.name))
                .map(|i| i + 1)
                .unwrap_or(usize::MAX);
            let reader_optional = f.ty.is_opt();
            if w < added_at {
                match &f.default {
                    Some(d) => {
                        out.push(d.clone());
                        continue;
                    }
                    None => return Err(ExpErr::NoDefault(f.name.clone())),
                }
            }
            if w >= gone_at {
                if reader_optional {
                    out.push(Val::None);
                    continue;
                } else {
                    return Err(ExpErr::FieldRemoved(f.name.clone()));
                }
            }
            let (wi, wf) = dw
                .fields
                .iter()
                .enumerate()
                .find(|(_, x)| x.name == f.name)
                .unwrap_or_else(|| panic!("model: writer {} lacks field {}", dw.name, f.name));
            let written = &fs[wi];
            let writer_optional = wf.ty.is_opt();
            let v = match (writer_optional, reader_optional) {
                (true, true) | (false, false) => self.convert(&wf.ty, &f.ty, written)?,
                (false, true) => {
                    let Ty::Opt(inner) = &f.ty else { unreachable!() };
                    Val::some(self.convert(&wf.ty, inner, written)?)
                }
                (true, false) => {
                    let Ty::Opt(inner) = &wf.ty else { unreachable!() };
                    match written {
                        Val::Some(x) => self.convert(inner, &f.ty, x)?,
                        Val::None => return Err(ExpErr::SerializedAsNone(f.name.clone())),
                        other => panic!("model: optional field holds {other:?}"),
                    }
                }
            };
            out.push(v);
        }
        Ok(out)
    }
}
