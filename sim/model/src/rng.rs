//! The only source of randomness in the simulator: SplitMix64 -> xoshiro256**.
//! One integer (the run seed) decides everything; sub-streams are derived by label so that adding
//! a draw in one place does not shift the others.

#[derive(Clone, Debug)]
pub struct Rng {
    s: [u64; 4],
}

fn splitmix(x: &mut u64) -> u64 {
    *x = x.wrapping_add(0x9E37_79B9_7F4A_7C15);
    let mut z = *x;
    z = (z ^ (z >> 30)).wrapping_mul(0xBF58_476D_1CE4_E5B9);
    z = (z ^ (z >> 27)).wrapping_mul(0x94D0_49BB_1331_11EB);
    z ^ (z >> 31)
}

/// FNV-1a, used to turn labels into seed material and to fingerprint things deterministically.
pub fn fnv(bytes: &[u8]) -> u64 {
    let mut h: u64 = 0xcbf2_9ce4_8422_2325;
    for b in bytes {
        h ^= *b as u64;
        h = h.wrapping_mul(0x0000_0100_0000_01B3);
    }
    h
}

pub fn mix(a: u64, b: u64) -> u64 {
    let mut x = a ^ b.rotate_left(32) ^ 0x5851_F42D_4C95_7F2D;
    let r = splitmix(&mut x);
    r ^ splitmix(&mut x)
}

/// seed of run `index` of `engine`/`profile-independent label` under the master seed
pub fn run_seed(master: u64, label: &str, index: u64) -> u64 {
    mix(mix(master, fnv(label.as_bytes())), index)
}

impl Rng {
    pub fn new(seed: u64) -> Self {
        let mut x = seed;
        let s = [
            splitmix(&mut x),
            splitmix(&mut x),
            splitmix(&mut x),
            splitmix(&mut x),
        ];
        Rng { s }
    }

    /// independent sub-stream
    pub fn derive(&self, label: &str) -> Rng {
        Rng::new(mix(self.s[0] ^ self.s[2].rotate_left(17), fnv(label.as_bytes())))
    }

    pub fn next_u64(&mut self) -> u64 {
        let result = self.s[1].wrapping_mul(5).rotate_left(7).wrapping_mul(9);
        let t = self.s[1] << 17;
        self.s[2] ^= self.s[0];
        self.s[3] ^= self.s[1];
        self.s[1] ^= self.s[2];
        self.s[0] ^= self.s[3];
        self.s[2] ^= t;
        self.s[3] = self.s[3].rotate_left(45);
        result
    }

    /// uniform in 0..n (n > 0)
    pub fn below(&mut self, n: u64) -> u64 {
        if n <= 1 {
            return 0;
        }
        // rejection-free multiply-shift is biased by < 2^-32 for the n used here; good enough and
        // deterministic
        ((self.next_u64() as u128 * n as u128) >> 64) as u64
    }

    pub fn usize_below(&mut self, n: usize) -> usize {
        self.below(n as u64) as usize
    }

    /// uniform in lo..=hi
    pub fn range(&mut self, lo: i64, hi: i64) -> i64 {
        debug_assert!(lo <= hi);
        lo + self.below((hi - lo) as u64 + 1) as i64
    }

    pub fn chance(&mut self, num: u64, den: u64) -> bool {
        self.below(den) < num
    }

    pub fn pick<'a, T>(&mut self, xs: &'a [T]) -> &'a T {
        &xs[self.usize_below(xs.len())]
    }

    pub fn bytes(&mut self, n: usize) -> Vec<u8> {
        let mut v = Vec::with_capacity(n);
        while v.len() < n {
            let x = self.next_u64().to_le_bytes();
            let take = (n - v.len()).min(8);
            v.extend_from_slice(&x[..take]);
        }
        v
    }
}

#[cfg(test)]
mod tests {
    use super::*;
    #[test]
    fn deterministic() {
        let mut a = Rng::new(7);
        let mut b = Rng::new(7);
        for _ in 0..100 {
            assert_eq!(a.next_u64(), b.next_u64());
        }
        assert_ne!(Rng::new(1).next_u64(), Rng::new(2).next_u64());
        let d1 = a.derive("x").next_u64();
        let d2 = a.derive("y").next_u64();
        assert_ne!(d1, d2);
    }
}
