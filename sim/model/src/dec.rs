//! Strict reference decoder: exactly the desert binary format with the leniencies listed in
//! DESIGN.md section 4.5 and nothing else. It also records a parse tree ("marks": byte range and
//! role of every framing element), which is what the framing faults aim at.
//!
//! Time, uuid and big-number *validity* is delegated to chrono / chrono-tz / num-bigint /
//! bigdecimal (third-party dependencies of the library, not the code under test).

use crate::ty::*;
use std::collections::BTreeMap;
use std::str::FromStr;

#[derive(Clone, Copy, Debug, PartialEq, Eq, PartialOrd, Ord, Hash)]
pub enum Role {
    Version,
    ChunkSize,
    StepCode,
    Position,
    Count,
    StrLen,
    BytesLen,
    OptTag,
    ResTag,
    ItemFlag,
    CtorIdx,
    StringId,
    RefId,
    TypeTag,
    Payload,
}

#[derive(Clone, Debug, PartialEq, Eq)]
pub struct Mark {
    pub off: usize,
    pub len: usize,
    pub role: Role,
    /// nesting depth of derived records/enums/tuples at this element
    pub depth: u16,
    /// decoded numeric value where the element is a number
    pub value: i64,
}

#[derive(Clone, Debug, PartialEq, Eq)]
pub enum Why {
    Eof,
    BadTag(u8),
    NegLen(i64),
    BadUtf8,
    BadChar(u16),
    BadValue(String),
    UnknownStringId(i64),
    UnknownRefId(u32),
    UnknownCtor(u32),
    TransientCtor(String),
    FieldRemoved(String),
    NoDefault(String),
    SerializedAsNone(String),
    ArrayLen { expected: usize, got: i64 },
    /// the model gave up (step budget); callers must treat the case as undecided
    ModelFuel,
}

pub type R<T> = Result<T, Why>;

#[derive(Clone, Copy, Debug)]
pub struct Cur {
    pub pos: usize,
    pub end: usize,
}

#[derive(Clone, Debug)]
enum HStep {
    Chunk(usize),
    MadeOptional(u8, u8),
    Removed(String),
    Unknown,
}

pub struct Decoder<'a> {
    pub buf: &'a [u8],
    pub reg: &'a Registry,
    pub strings: Vec<String>,
    /// objects of the reference table, in id order (id = index + 1)
    pub refs: Vec<String>,
    pub marks: Vec<Mark>,
    pub depth: u16,
    pub fuel: u64,
    pub record_marks: bool,
    /// probes: which rare branches the model itself went through (for evidence)
    pub probes: BTreeMap<&'static str, u64>,
}

pub struct Decoded {
    pub val: Val,
    pub consumed: usize,
    pub marks: Vec<Mark>,
    pub probes: BTreeMap<&'static str, u64>,
}

pub fn ref_decode(reg: &Registry, ty: &Ty, bytes: &[u8]) -> R<Decoded> {
    let mut d = Decoder::new(reg, bytes);
    let mut cur = Cur { pos: 0, end: bytes.len() };
    let val = d.decode(ty, &mut cur)?;
    Ok(Decoded { val, consumed: cur.pos, marks: d.marks, probes: d.probes })
}

/// like `ref_decode`, also reporting how many model steps were spent (a large number means the
/// bytes legitimately denote a long loop, e.g. a huge count of zero-sized elements)
pub fn ref_decode_metered(reg: &Registry, ty: &Ty, bytes: &[u8]) -> (R<Val>, u64) {
    let mut d = Decoder::new(reg, bytes);
    d.record_marks = false;
    let start = d.fuel;
    let mut cur = Cur { pos: 0, end: bytes.len() };
    let r = d.decode(ty, &mut cur);
    (r, start - d.fuel)
}

/// Decode as much as possible and return the marks collected until the first error (used to aim
/// faults at data that is about to be read as another type).
pub fn ref_marks(reg: &Registry, ty: &Ty, bytes: &[u8]) -> Vec<Mark> {
    let mut d = Decoder::new(reg, bytes);
    let mut cur = Cur { pos: 0, end: bytes.len() };
    let _ = d.decode(ty, &mut cur);
    d.marks
}

impl<'a> Decoder<'a> {
    pub fn new(reg: &'a Registry, buf: &'a [u8]) -> Self {
        Decoder {
            buf,
            reg,
            strings: Vec::new(),
            refs: Vec::new(),
            marks: Vec::new(),
            depth: 0,
            fuel: 2_000_000,
            record_marks: true,
            probes: BTreeMap::new(),
        }
    }

    fn probe(&mut self, name: &'static str) {
        *self.probes.entry(name).or_insert(0) += 1;
    }

    fn tick(&mut self) -> R<()> {
        if self.fuel == 0 {
            return Err(Why::ModelFuel);
        }
        self.fuel -= 1;
        Ok(())
    }

    fn mark(&mut self, off: usize, len: usize, role: Role, value: i64) {
        if self.record_marks {
            self.marks.push(Mark { off, len, role, depth: self.depth, value });
        }
    }

    fn u8(&mut self, cur: &mut Cur) -> R<u8> {
        if cur.pos >= cur.end {
            return Err(Why::Eof);
        }
        let b = self.buf[cur.pos];
        cur.pos += 1;
        Ok(b)
    }

    fn take(&mut self, cur: &mut Cur, n: usize) -> R<&'a [u8]> {
        if n > cur.end - cur.pos {
            return Err(Why::Eof);
        }
        let s = &self.buf[cur.pos..cur.pos + n];
        cur.pos += n;
        Ok(s)
    }

    fn var_u32(&mut self, cur: &mut Cur) -> R<u32> {
        let mut r: u32 = 0;
        for i in 0..5 {
            let b = self.u8(cur)?;
            r |= ((b & 0x7F) as u32).wrapping_shl(7 * i);
            if i == 4 || b & 0x80 == 0 {
                break;
            }
        }
        Ok(r)
    }

    fn var_i32(&mut self, cur: &mut Cur) -> R<i32> {
        let r = self.var_u32(cur)?;
        Ok(((r >> 1) as i32) ^ -((r & 1) as i32))
    }

    fn marked_var_u32(&mut self, cur: &mut Cur, role: Role) -> R<u32> {
        let off = cur.pos;
        let v = self.var_u32(cur)?;
        self.mark(off, cur.pos - off, role, v as i64);
        Ok(v)
    }

    fn marked_var_i32(&mut self, cur: &mut Cur, role: Role) -> R<i32> {
        let off = cur.pos;
        let v = self.var_i32(cur)?;
        self.mark(off, cur.pos - off, role, v as i64);
        Ok(v)
    }

    fn marked_u8(&mut self, cur: &mut Cur, role: Role) -> R<u8> {
        let off = cur.pos;
        let v = self.u8(cur)?;
        self.mark(off, 1, role, v as i64);
        Ok(v)
    }

    fn fixed(&mut self, cur: &mut Cur, n: usize) -> R<u128> {
        let off = cur.pos;
        let s = self.take(cur, n)?;
        let mut r: u128 = 0;
        for b in s {
            r = (r << 8) | *b as u128;
        }
        self.mark(off, n, Role::Payload, r as i64);
        Ok(r)
    }

    fn string(&mut self, cur: &mut Cur) -> R<String> {
        let len = self.marked_var_i32(cur, Role::StrLen)?;
        if len < 0 {
            return Err(Why::NegLen(len as i64));
        }
        let off = cur.pos;
        let s = self.take(cur, len as usize)?;
        self.mark(off, len as usize, Role::Payload, 0);
        String::from_utf8(s.to_vec()).map_err(|_| Why::BadUtf8)
    }

    fn dedup_string(&mut self, cur: &mut Cur) -> R<String> {
        let off = cur.pos;
        let n = self.var_i32(cur)?;
        if n < 0 {
            self.mark(off, cur.pos - off, Role::StringId, n as i64);
            let id = -(n as i64);
            let idx = (id - 1) as usize;
            match self.strings.get(idx) {
                Some(s) => Ok(s.clone()),
                None => Err(Why::UnknownStringId(id)),
            }
        } else {
            self.mark(off, cur.pos - off, Role::StrLen, n as i64);
            let o2 = cur.pos;
            let s = self.take(cur, n as usize)?;
            self.mark(o2, n as usize, Role::Payload, 0);
            let s = String::from_utf8(s.to_vec()).map_err(|_| Why::BadUtf8)?;
            if !self.strings.iter().any(|x| *x == s) {
                self.strings.push(s.clone());
            }
            Ok(s)
        }
    }

    fn shared_strs(&mut self, cur: &mut Cur) -> R<Val> {
        let n = self.marked_var_u32(cur, Role::Count)?;
        let mut items = Vec::new();
        for _ in 0..n {
            self.tick()?;
            let id = self.marked_var_u32(cur, Role::RefId)?;
            if id == 0 {
                let off = cur.pos;
                let len = self.var_i32(cur)?;
                if len < 0 {
                    return Err(Why::NegLen(len as i64));
                }
                self.mark(off, cur.pos - off, Role::StrLen, len as i64);
                let o2 = cur.pos;
                let b = self.take(cur, len as usize)?;
                self.mark(o2, len as usize, Role::Payload, 0);
                let s = String::from_utf8(b.to_vec()).map_err(|_| Why::BadUtf8)?;
                self.refs.push(s.clone());
                items.push(Val::Str(s));
            } else {
                match self.refs.get(id as usize - 1) {
                    Some(s) => items.push(Val::Str(s.clone())),
                    None => return Err(Why::UnknownRefId(id)),
                }
            }
        }
        Ok(Val::Seq(items))
    }

    fn byte_block(&mut self, cur: &mut Cur) -> R<Vec<u8>> {
        let len = self.marked_var_u32(cur, Role::BytesLen)?;
        let off = cur.pos;
        let s = self.take(cur, len as usize)?;
        self.mark(off, len as usize, Role::Payload, 0);
        Ok(s.to_vec())
    }

    /// elements of a sequence in either size form
    fn seq_items(&mut self, elem: &Ty, cur: &mut Cur) -> R<Vec<Val>> {
        let count = self.marked_var_i32(cur, Role::Count)?;
        let mut items = Vec::new();
        if count == -1 {
            self.probe("model_seq_unknown_form");
            loop {
                self.tick()?;
                let flag = self.marked_u8(cur, Role::ItemFlag)?;
                match flag {
                    0 => break,
                    1 => items.push(self.decode(elem, cur)?),
                    other => return Err(Why::BadTag(other)),
                }
            }
        } else if count < 0 {
            return Err(Why::NegLen(count as i64));
        } else {
            for _ in 0..count {
                self.tick()?;
                items.push(self.decode(elem, cur)?);
            }
        }
        Ok(items)
    }

    pub fn decode(&mut self, ty: &Ty, cur: &mut Cur) -> R<Val> {
        self.tick()?;
        Ok(match ty {
            Ty::U8 => Val::U(self.fixed(cur, 1)?),
            Ty::U16 => Val::U(self.fixed(cur, 2)?),
            Ty::U32 => Val::U(self.fixed(cur, 4)?),
            Ty::U64 => Val::U(self.fixed(cur, 8)?),
            Ty::U128 => Val::U(self.fixed(cur, 16)?),
            Ty::I8 => Val::I(self.fixed(cur, 1)? as u8 as i8 as i128),
            Ty::I16 => Val::I(self.fixed(cur, 2)? as u16 as i16 as i128),
            Ty::I32 => Val::I(self.fixed(cur, 4)? as u32 as i32 as i128),
            Ty::I64 => Val::I(self.fixed(cur, 8)? as u64 as i64 as i128),
            Ty::I128 => Val::I(self.fixed(cur, 16)? as i128),
            Ty::F32 => Val::F32(self.fixed(cur, 4)? as u32),
            Ty::F64 => Val::F64(self.fixed(cur, 8)? as u64),
            Ty::Bool => Val::Bool(self.fixed(cur, 1)? != 0),
            Ty::Unit => Val::Unit,
            Ty::Char => {
                let c = self.fixed(cur, 2)? as u16;
                if (0xD800..=0xDFFF).contains(&c) {
                    return Err(Why::BadChar(c));
                }
                Val::Char(c)
            }
            Ty::Str => Val::Str(self.string(cur)?),
            Ty::DedupStr => Val::Str(self.dedup_string(cur)?),
            Ty::SharedStrs => self.shared_strs(cur)?,
            Ty::Duration => {
                let secs = self.fixed(cur, 8)? as u64;
                let nanos = self.fixed(cur, 4)? as u32;
                let carry = (nanos / 1_000_000_000) as u64;
                match secs.checked_add(carry) {
                    Some(s) => Val::Tuple(vec![Val::U(s as u128), Val::U((nanos % 1_000_000_000) as u128)]),
                    None => return Err(Why::BadValue("duration overflow".into())),
                }
            }
            Ty::Opt(inner) => match self.marked_u8(cur, Role::OptTag)? {
                0 => Val::None,
                1 => Val::some(self.decode(inner, cur)?),
                other => return Err(Why::BadTag(other)),
            },
            Ty::Res(ok, err) => match self.marked_u8(cur, Role::ResTag)? {
                0 => Val::Err(Box::new(self.decode(err, cur)?)),
                1 => Val::Ok(Box::new(self.decode(ok, cur)?)),
                other => return Err(Why::BadTag(other)),
            },
            Ty::Tuple(tys) => {
                let def = tuple_def(tys);
                let v = self.record(&def, cur)?;
                match v {
                    Val::Record(f) => Val::Tuple(f),
                    _ => unreachable!(),
                }
            }
            Ty::Seq(elem, kind) => {
                let items = self.seq_items(elem, cur)?;
                match kind {
                    SeqKind::Vec | SeqKind::List => Val::Seq(items),
                    SeqKind::HashSet | SeqKind::BTreeSet => canon_set(items),
                    SeqKind::Array(n) => {
                        if items.len() != *n {
                            return Err(Why::ArrayLen { expected: *n, got: items.len() as i64 });
                        }
                        Val::Seq(items)
                    }
                }
            }
            Ty::Map(k, v, _) => {
                let pair = Ty::Tuple(vec![(**k).clone(), (**v).clone()]);
                let items = self.seq_items(&pair, cur)?;
                canon_map(
                    items
                        .into_iter()
                        .map(|p| match p {
                            Val::Tuple(mut kv) => {
                                let v = kv.pop().unwrap();
                                let k = kv.pop().unwrap();
                                (k, v)
                            }
                            _ => unreachable!(),
                        })
                        .collect(),
                )
            }
            Ty::Bytes(kind) => {
                let b = self.byte_block(cur)?;
                if let BytesKind::Array(n) = kind {
                    if b.len() != *n {
                        return Err(Why::ArrayLen { expected: *n, got: b.len() as i64 });
                    }
                }
                Val::Bytes(b)
            }
            Ty::Boxed(inner) => self.decode(inner, cur)?,
            Ty::Compressed => {
                // frame = varint(uncompressed length) ++ varint(compressed length) ++ raw deflate.
                // Raw deflate has no checksum and the stored uncompressed length is only a hint
                // (leniency 10): the value is whatever the payload inflates to.
                let _ulen = self.marked_var_u32(cur, Role::BytesLen)?;
                let clen = self.marked_var_u32(cur, Role::BytesLen)?;
                let off = cur.pos;
                let payload = self.take(cur, clen as usize)?;
                self.mark(off, clen as usize, Role::Payload, 0);
                use std::io::Read;
                let mut out = Vec::new();
                match flate2::read::DeflateDecoder::new(payload).read_to_end(&mut out) {
                    Ok(_) => Val::Bytes(out),
                    Err(e) => return Err(Why::BadValue(format!("deflate: {e}"))),
                }
            }
            Ty::Uuid => {
                let off = cur.pos;
                let s = self.take(cur, 16)?;
                self.mark(off, 16, Role::Payload, 0);
                Val::Bytes(s.to_vec())
            }
            Ty::Weekday => {
                let b = self.fixed(cur, 1)? as u8 as i8;
                if (1..=7).contains(&b) {
                    Val::U(b as u128)
                } else {
                    return Err(Why::BadValue(format!("weekday {b}")));
                }
            }
            Ty::Month => {
                let b = self.fixed(cur, 1)? as u8 as i8;
                if (1..=12).contains(&b) {
                    Val::U(b as u128)
                } else {
                    return Err(Why::BadValue(format!("month {b}")));
                }
            }
            Ty::FixedOffset => Val::I(self.fixed_offset(cur)? as i128),
            Ty::Tz => Val::Str(self.tz(cur)?.name().to_string()),
            Ty::DateTimeUtc => {
                let secs = self.fixed(cur, 8)? as u64 as i64;
                let nanos = self.fixed(cur, 4)? as u32;
                match chrono::DateTime::<chrono::Utc>::from_timestamp(secs, nanos) {
                    Some(dt) => Val::Tuple(vec![
                        Val::I(dt.timestamp() as i128),
                        Val::U(dt.timestamp_subsec_nanos() as u128),
                    ]),
                    None => return Err(Why::BadValue(format!("timestamp {secs} {nanos}"))),
                }
            }
            Ty::NaiveDate => date_val(&self.naive_date(cur)?),
            Ty::NaiveTime => time_val(&self.naive_time(cur)?),
            Ty::NaiveDateTime | Ty::DateTimeLocal => {
                // DateTime<Local> is quantified under TZ=UTC, where every naive date-time is a
                // single valid local time
                let d = self.naive_date(cur)?;
                let t = self.naive_time(cur)?;
                Val::Tuple(vec![date_val(&d), time_val(&t)])
            }
            Ty::DateTimeFixed => {
                use chrono::TimeZone;
                let d = self.naive_date(cur)?;
                let t = self.naive_time(cur)?;
                let naive = chrono::NaiveDateTime::new(d, t);
                let off = self.fixed_offset(cur)?;
                let fo = chrono::FixedOffset::east_opt(off).unwrap();
                match fo.from_local_datetime(&naive).single() {
                    Some(_) => Val::Tuple(vec![
                        Val::Tuple(vec![date_val(&d), time_val(&t)]),
                        Val::I(off as i128),
                    ]),
                    None => return Err(Why::BadValue("local datetime out of range".into())),
                }
            }
            Ty::DateTimeTz => {
                let d = self.naive_date(cur)?;
                let t = self.naive_time(cur)?;
                let tz = self.tz(cur)?;
                Val::Tuple(vec![
                    Val::Tuple(vec![date_val(&d), time_val(&t)]),
                    Val::Str(tz.name().to_string()),
                ])
            }
            Ty::BigInt => {
                let b = self.byte_block(cur)?;
                let n = num_bigint::BigInt::from_signed_bytes_be(&b);
                Val::Bytes(n.to_signed_bytes_be())
            }
            Ty::BigDecimal => {
                let s = self.string(cur)?;
                match bigdecimal::BigDecimal::from_str(&s) {
                    Ok(d) => bigdecimal_val(&d),
                    Err(e) => return Err(Why::BadValue(format!("bigdecimal {e}"))),
                }
            }
            Ty::Adt(name) => {
                let reg = self.reg;
                match reg.get(name) {
                    AdtDef::Record(def) => self.record(def, cur)?,
                    AdtDef::Enum(def) => self.enumeration(def, cur)?,
                }
            }
        })
    }

    fn fixed_offset(&mut self, cur: &mut Cur) -> R<i32> {
        let typ = self.marked_u8(cur, Role::TypeTag)?;
        if typ != 0 {
            return Err(Why::BadTag(typ));
        }
        let off = self.marked_var_i32(cur, Role::Payload)?;
        if chrono::FixedOffset::east_opt(off).is_none() {
            return Err(Why::BadValue(format!("offset {off}")));
        }
        Ok(off)
    }

    fn tz(&mut self, cur: &mut Cur) -> R<chrono_tz::Tz> {
        let typ = self.marked_u8(cur, Role::TypeTag)?;
        if typ != 1 {
            return Err(Why::BadTag(typ));
        }
        let name = self.string(cur)?;
        chrono_tz::Tz::from_str(&name).map_err(|e| Why::BadValue(format!("tz {e}")))
    }

    fn naive_date(&mut self, cur: &mut Cur) -> R<chrono::NaiveDate> {
        let year = self.marked_var_u32(cur, Role::Payload)? as i32;
        let month = self.fixed(cur, 1)? as u32;
        let day = self.fixed(cur, 1)? as u32;
        chrono::NaiveDate::from_ymd_opt(year, month, day)
            .ok_or_else(|| Why::BadValue(format!("date {year} {month} {day}")))
    }

    fn naive_time(&mut self, cur: &mut Cur) -> R<chrono::NaiveTime> {
        let h = self.fixed(cur, 1)? as u32;
        let m = self.fixed(cur, 1)? as u32;
        let s = self.fixed(cur, 1)? as u32;
        let n = self.marked_var_u32(cur, Role::Payload)?;
        chrono::NaiveTime::from_hms_nano_opt(h, m, s, n)
            .ok_or_else(|| Why::BadValue(format!("time {h} {m} {s} {n}")))
    }

    /// header of a stored record with version > 0: steps, then chunk windows
    #[allow(clippy::type_complexity)]
    fn header(
        &mut self,
        ver: u8,
        cur: &mut Cur,
    ) -> R<(Vec<Cur>, BTreeMap<(u8, u8), u8>, Vec<String>)> {
        let mut steps = Vec::new();
        for _ in 0..=ver {
            let off = cur.pos;
            let code = self.var_i32(cur)?;
            let step = match code {
                0 => {
                    self.mark(off, cur.pos - off, Role::StepCode, 0);
                    HStep::Unknown
                }
                -1 => {
                    self.mark(off, cur.pos - off, Role::StepCode, -1);
                    let b = self.marked_u8(cur, Role::Position)? as i8;
                    if b < 0 {
                        HStep::MadeOptional(0, b.wrapping_neg() as u8)
                    } else {
                        HStep::MadeOptional(b as u8, 0)
                    }
                }
                -2 => {
                    self.mark(off, cur.pos - off, Role::StepCode, -2);
                    HStep::Removed(self.dedup_string(cur)?)
                }
                n if n < 0 => {
                    self.mark(off, cur.pos - off, Role::ChunkSize, n as i64);
                    return Err(Why::NegLen(n as i64));
                }
                n => {
                    self.mark(off, cur.pos - off, Role::ChunkSize, n as i64);
                    HStep::Chunk(n as usize)
                }
            };
            steps.push(step);
        }
        let mut windows = Vec::new();
        let mut made_optional = BTreeMap::new();
        let mut removed = Vec::new();
        for (idx, s) in steps.into_iter().enumerate() {
            match s {
                HStep::Chunk(size) => {
                    if size > cur.end - cur.pos {
                        return Err(Why::Eof);
                    }
                    windows.push(Cur { pos: cur.pos, end: cur.pos + size });
                    cur.pos += size;
                }
                HStep::MadeOptional(c, p) => {
                    made_optional.insert((c, p), idx as u8);
                    windows.push(Cur { pos: cur.pos, end: cur.pos });
                }
                HStep::Removed(name) => {
                    removed.push(name);
                    windows.push(Cur { pos: cur.pos, end: cur.pos });
                }
                HStep::Unknown => windows.push(Cur { pos: cur.pos, end: cur.pos }),
            }
        }
        Ok((windows, made_optional, removed))
    }

    /// a record read with definition `def`
    pub fn record(&mut self, def: &RecordDef, cur: &mut Cur) -> R<Val> {
        self.depth += 1;
        let r = self.record_inner(def, cur);
        self.depth -= 1;
        r
    }

    fn record_inner(&mut self, def: &RecordDef, cur: &mut Cur) -> R<Val> {
        let ver = self.marked_u8(cur, Role::Version)?;
        if ver == 0 {
            self.fields(def, 0, None, &BTreeMap::new(), &[], cur)
        } else {
            let (mut windows, mo, removed) = self.header(ver, cur)?;
            if (ver as usize) > def.steps.len() {
                self.probe("model_newer_data_unknown_steps");
            }
            let mut dummy = Cur { pos: 0, end: 0 };
            self.fields(def, ver, Some(&mut windows), &mo, &removed, &mut dummy)
        }
    }

    /// the field-by-field reading procedure of a declaration
    fn fields(
        &mut self,
        def: &RecordDef,
        stored: u8,
        mut windows: Option<&mut Vec<Cur>>,
        made_optional: &BTreeMap<(u8, u8), u8>,
        removed: &[String],
        stream: &mut Cur,
    ) -> R<Val> {
        let mut last_index: BTreeMap<u8, i16> = BTreeMap::new();
        let mut out = Vec::with_capacity(def.fields.len());
        for f in &def.fields {
            if let Some(d) = &f.transient {
                out.push(d.clone());
                continue;
            }
            let is_opt = def.option_aware && f.ty.is_opt();
            if removed.iter().any(|n| *n == f.name) {
                if is_opt {
                    self.probe("model_removed_optional_none");
                    out.push(Val::None);
                    continue;
                } else {
                    return Err(Why::FieldRemoved(f.name.clone()));
                }
            }
            let chunk = def.generation(&f.name);
            let idx = last_index.entry(chunk).or_insert(-1);
            *idx += 1;
            let position = (chunk, *idx as u8);
            if stored < chunk {
                match &f.default {
                    Some(d) => {
                        self.probe("model_default_used");
                        out.push(d.clone());
                        continue;
                    }
                    None => return Err(Why::NoDefault(f.name.clone())),
                }
            }
            // where the field's bytes are
            let mut local;
            let c: &mut Cur = match windows.as_deref_mut() {
                Some(w) => {
                    local = w[chunk as usize];
                    &mut local
                }
                None => {
                    local = *stream;
                    &mut local
                }
            };
            let v = if is_opt {
                let inner = match &f.ty {
                    Ty::Opt(i) => i,
                    _ => unreachable!(),
                };
                if stored < def.made_optional_at(&f.name) {
                    self.probe("model_wrap_some");
                    Val::some(self.decode(inner, c)?)
                } else {
                    self.decode(&f.ty, c)?
                }
            } else if made_optional.contains_key(&position) {
                self.probe("model_unwrap_optional");
                let flag = self.fixed(c, 1)?;
                if flag != 0 {
                    self.decode(&f.ty, c)?
                } else {
                    return Err(Why::SerializedAsNone(f.name.clone()));
                }
            } else {
                self.decode(&f.ty, c)?
            };
            let c = *c;
            match windows.as_deref_mut() {
                Some(w) => w[chunk as usize] = c,
                None => *stream = c,
            }
            out.push(v);
        }
        Ok(Val::Record(out))
    }

    pub fn enumeration(&mut self, def: &EnumDef, cur: &mut Cur) -> R<Val> {
        self.depth += 1;
        let r = self.enumeration_inner(def, cur);
        self.depth -= 1;
        r
    }

    fn enumeration_inner(&mut self, def: &EnumDef, cur: &mut Cur) -> R<Val> {
        let ver = self.marked_u8(cur, Role::Version)?;
        let order = def.wire_order();
        if ver == 0 {
            let idx = self.marked_var_u32(cur, Role::CtorIdx)?;
            self.ctor(def, &order, idx, cur)
        } else {
            // an enum-level header: the constructor lives in chunk 0
            let (mut windows, _, _) = self.header(ver, cur)?;
            let w = &mut windows[0];
            let idx = self.marked_var_u32(w, Role::CtorIdx)?;
            let mut c = *w;
            self.ctor(def, &order, idx, &mut c)
        }
    }

    fn ctor(&mut self, def: &EnumDef, order: &[usize], idx: u32, cur: &mut Cur) -> R<Val> {
        let Some(decl) = order.get(idx as usize) else {
            return Err(Why::UnknownCtor(idx));
        };
        let c = &def.ctors[*decl];
        if c.transient {
            return Err(Why::TransientCtor(c.name.clone()));
        }
        match self.record(&c.record, cur)? {
            Val::Record(f) => Ok(Val::Enum(*decl, f)),
            _ => unreachable!(),
        }
    }
}

pub fn tuple_def(tys: &[Ty]) -> RecordDef {
    RecordDef {
        name: format!("Tuple{}", tys.len()),
        option_aware: false,
        steps: vec![],
        fields: tys
            .iter()
            .enumerate()
            .map(|(i, t)| FieldDef { name: format!("_{i}"), ty: t.clone(), transient: None, default: None })
            .collect(),
    }
}

pub fn date_val(d: &chrono::NaiveDate) -> Val {
    use chrono::Datelike;
    Val::Tuple(vec![Val::I(d.year() as i128), Val::U(d.month() as u128), Val::U(d.day() as u128)])
}

pub fn time_val(t: &chrono::NaiveTime) -> Val {
    use chrono::Timelike;
    Val::Tuple(vec![
        Val::U(t.hour() as u128),
        Val::U(t.minute() as u128),
        Val::U(t.second() as u128),
        Val::U(t.nanosecond() as u128),
    ])
}

pub fn bigdecimal_val(d: &bigdecimal::BigDecimal) -> Val {
    let (n, scale) = d.normalized().as_bigint_and_exponent();
    Val::Tuple(vec![Val::Bytes(n.to_signed_bytes_be()), Val::I(scale as i128)])
}
