//! Engine `enum` (C05, fault enumeration part): *every* byte string up to a small length is handed
//! to the decoder of *every* catalogue type as a foreign sector (F-garbage, enumerated). A run
//! index is one block of 256 strings sharing all but the last byte.

use crate::case::{Case, Violation};
use crate::catalog::Catalog;
use crate::stats::Stats;
use model::rng::{fnv, mix};

pub struct Config {
    pub max_len: usize,
    /// leave out the C12 container matrix (its types repeat the shapes of the rest of the catalogue)
    /// and the middle releases of the generated families
    pub skip_matrix: bool,
}

/// number of run indices (blocks) for strings of length <= max_len
pub fn blocks(max_len: usize) -> u64 {
    // lengths 0 and 1 form block 0; length L >= 2 has 256^(L-1) blocks
    let mut n = 1u64;
    for l in 2..=max_len {
        n += 256u64.pow(l as u32 - 1);
    }
    n
}

fn strings_of_block(mut idx: u64, max_len: usize) -> Vec<Vec<u8>> {
    if idx == 0 {
        let mut v = vec![vec![]];
        v.extend((0..=255u8).map(|b| vec![b]));
        return v;
    }
    idx -= 1;
    for l in 2..=max_len {
        let n = 256u64.pow(l as u32 - 1);
        if idx < n {
            let mut prefix = Vec::with_capacity(l);
            let mut x = idx;
            for _ in 0..l - 1 {
                prefix.push((x & 0xff) as u8);
                x >>= 8;
            }
            prefix.reverse();
            return (0..=255u8)
                .map(|b| {
                    let mut s = prefix.clone();
                    s.push(b);
                    s
                })
                .collect();
        }
        idx -= n;
    }
    vec![]
}

pub fn run(cat: &Catalog, cfg: &Config, stats: &mut Stats, block: u64) -> Vec<Violation> {
    stats.runs += 1;
    let mut violations = Vec::new();
    for s in strings_of_block(block, cfg.max_len) {
        for (idx, e) in cat.entries.iter().enumerate() {
            if cfg.skip_matrix && e.name.starts_with("m.") {
                continue;
            }
            // ... and, with it, the middle releases of the generated families and the sequences of
            // their enums (the first and the last release stay)
            if cfg.skip_matrix && idx >= cat.builtins && !(e.name.ends_with("_V0") || e.name.ends_with("_V5")) {
                continue;
            }
            let mut c = Case::new("C05", "total", e.name, s.clone());
            c.fault = "enumerated foreign sector".into();
            c.fault_kind = "F-garbage".into();
            let ev = crate::case::eval(cat, &c);
            stats.cases += 1;
            stats.ticks += ev.meter.ticks;
            *stats.counters.entry(format!("outcome.{}", ev.outcome)).or_insert(0) += 1;
            stats.note(mix(fnv(e.name.as_bytes()), mix(fnv(&s), fnv(ev.outcome.as_bytes()))));
            if let Some(f) = ev.finding {
                violations.push(Violation { case: c, finding: f, run_seed: block, trace: vec![format!("enumerated string {}", model::hex(&s))] });
            }
        }
        stats.distinct.insert(fnv(&s));
    }
    stats.add("fault_fired.F-garbage", 0);
    violations
}
