//! Engine `seams` (C15): the simulator's own seams must be transparent. Every value a node writes
//! is teed through all sinks (three shipped ones, the two convenience entry points, two
//! simulator-defined outputs); programs of primitive reads run in lockstep on the three sources
//! over the same, randomly cut buffer, with hostile lengths (F-eof) mixed in.
//! Also carries C05's clause that a requested length that does not fit is rejected.

use crate::case::{Case, Evaluated, Finding, Violation};
use crate::catalog::Catalog;
use crate::exec::{contain, Meter, Outcome};
use crate::stats::Stats;
use desert::{BinaryInput, BinaryOutput, DeserializationContext, OwnedInput, SliceInput};
use model::gen::Gen;
use model::ty::Val;
use model::rng::{fnv, mix, Rng};
use serde_json::json;
use std::cell::RefCell;

pub struct Config {
    pub focus: String,
}

#[derive(Clone, Debug, PartialEq)]
pub enum Op {
    U8,
    I8,
    U16,
    I16,
    U32,
    I32,
    U64,
    I64,
    U128,
    I128,
    F32,
    F64,
    VarU32,
    VarI32,
    Bytes(usize),
    Skip(usize),
    Compressed,
}

impl Op {
    pub fn to_text(&self) -> String {
        match self {
            Op::Bytes(n) => format!("bytes:{n}"),
            Op::Skip(n) => format!("skip:{n}"),
            o => format!("{o:?}").to_lowercase(),
        }
    }
    pub fn parse(s: &str) -> Op {
        if let Some(n) = s.strip_prefix("bytes:") {
            return Op::Bytes(n.parse().unwrap());
        }
        if let Some(n) = s.strip_prefix("skip:") {
            return Op::Skip(n.parse().unwrap());
        }
        match s {
            "u8" => Op::U8,
            "i8" => Op::I8,
            "u16" => Op::U16,
            "i16" => Op::I16,
            "u32" => Op::U32,
            "i32" => Op::I32,
            "u64" => Op::U64,
            "i64" => Op::I64,
            "u128" => Op::U128,
            "i128" => Op::I128,
            "f32" => Op::F32,
            "f64" => Op::F64,
            "varu32" => Op::VarU32,
            "vari32" => Op::VarI32,
            "compressed" => Op::Compressed,
            o => panic!("unknown op {o}"),
        }
    }
}

fn step<I: BinaryInput>(inp: &mut I, op: &Op) -> String {
    fn show<T: std::fmt::Debug>(r: desert::Result<T>) -> String {
        match r {
            Ok(v) => format!("Ok({v:?})"),
            Err(e) => format!("Err({e:?})"),
        }
    }
    match op {
        Op::U8 => show(inp.read_u8()),
        Op::I8 => show(inp.read_i8()),
        Op::U16 => show(inp.read_u16()),
        Op::I16 => show(inp.read_i16()),
        Op::U32 => show(inp.read_u32()),
        Op::I32 => show(inp.read_i32()),
        Op::U64 => show(inp.read_u64()),
        Op::I64 => show(inp.read_i64()),
        Op::U128 => show(inp.read_u128()),
        Op::I128 => show(inp.read_i128()),
        Op::F32 => show(inp.read_f32().map(|x| x.to_bits())),
        Op::F64 => show(inp.read_f64().map(|x| x.to_bits())),
        Op::VarU32 => show(inp.read_var_u32()),
        Op::VarI32 => show(inp.read_var_i32()),
        Op::Bytes(n) => show(inp.read_bytes(*n).map(|b| (b.len(), fnv(b)))),
        Op::Skip(n) => show(inp.skip(*n)),
        Op::Compressed => show(inp.read_compressed().map(|b| (b.len(), fnv(&b)))),
    }
}

/// runs the program; results up to a panic are kept
fn run_program<I: BinaryInput>(mut inp: I, prog: &[Op]) -> Vec<String> {
    let results = RefCell::new(Vec::new());
    let (out, _) = contain(1 << 22, || {
        for op in prog {
            let r = step(&mut inp, op);
            results.borrow_mut().push(r);
        }
        Ok(())
    });
    let mut r = results.into_inner();
    match out {
        Outcome::Panic(m) => r.push(format!("PANIC({m})")),
        Outcome::Hang => r.push("HANG".into()),
        _ => {}
    }
    r
}

pub fn parse_program(text: &str) -> Vec<Op> {
    text.split(';').filter(|s| !s.is_empty()).map(Op::parse).collect()
}

/// clause `sources`: the three inputs agree result by result.
/// clause `eof-reject`: a read or skip whose length does not fit is an error in all three.
pub fn eval_sources(case: &Case) -> Evaluated {
    let prog = parse_program(case.expected.as_deref().unwrap_or(""));
    let buf = &case.input;
    let a = run_program(SliceInput::new(buf), &prog);
    let b = run_program(OwnedInput::new(buf.clone()), &prog);
    let c = run_program(DeserializationContext::new(buf), &prog);
    let mut finding = None;
    if case.clause == "sources" {
        let n = a.len().max(b.len()).max(c.len());
        for i in 0..n {
            let (x, y, z) = (a.get(i), b.get(i), c.get(i));
            if x != y || y != z {
                finding = Some(Finding {
                    class: "disagree".into(),
                    detail: format!(
                        "operation {i} ({}): SliceInput {:?}, OwnedInput {:?}, DeserializationContext {:?}",
                        prog.get(i).map(|o| o.to_text()).unwrap_or_else(|| "-".into()),
                        x,
                        y,
                        z
                    ),
                });
                break;
            }
        }
    } else {
        // track the cursor from the results themselves: a length that does not fit must be Err
        for (name, res) in [("SliceInput", &a), ("OwnedInput", &b), ("DeserializationContext", &c)] {
            let mut pos = 0usize;
            for (i, op) in prog.iter().enumerate() {
                let Some(r) = res.get(i) else { break };
                if r.starts_with("PANIC") || r == "HANG" {
                    finding = Some(Finding { class: "panic".into(), detail: format!("{name}: operation {i} ({}): {r}", op.to_text()) });
                    break;
                }
                let ok = r.starts_with("Ok");
                match op {
                    Op::Bytes(n) | Op::Skip(n) => {
                        let fits = *n <= buf.len().saturating_sub(pos);
                        if !fits && ok {
                            finding = Some(Finding {
                                class: "overrun".into(),
                                detail: format!("{name}: operation {i} ({}) at offset {pos} of {} succeeded", op.to_text(), buf.len()),
                            });
                            break;
                        }
                        if ok {
                            pos += n;
                        }
                    }
                    _ => {
                        // position after other operations is not tracked precisely; stop judging
                        break;
                    }
                }
            }
            if finding.is_some() {
                break;
            }
        }
    }
    let panicked = a.iter().chain(b.iter()).chain(c.iter()).any(|r| r.starts_with("PANIC"));
    Evaluated { finding, outcome: if panicked { "panic" } else { "ok" }, meter: Meter::default() }
}

/// clause `sinks`: input is a valid encoding; its value written through every sink gives one byte
/// stream, and the size calculator reports its length
pub fn eval_sinks(cat: &Catalog, case: &Case) -> Evaluated {
    let e = cat.by_name(&case.read_as).unwrap();
    let f = e.sinks_from_bytes;
    let (out, meter) = contain(u64::MAX, || f(&case.input));
    let finding = match &out {
        Outcome::Ok(s) => s.disagreement().map(|d| Finding { class: "sinks".into(), detail: d }),
        _ => None,
    };
    Evaluated { finding, outcome: out.class(), meter }
}

/// does the value ask its client-defined codec to fail?
fn wants_failure(v: &model::ty::Val) -> bool {
    // a `Fragile` is Record([Str, Bool(true)])
    use model::ty::Val;
    match v {
        Val::Record(f) if f.len() == 2 && matches!((&f[0], &f[1]), (Val::Str(_), Val::Bool(true))) => true,
        Val::Record(f) | Val::Tuple(f) | Val::Seq(f) | Val::Enum(_, f) => f.iter().any(wants_failure),
        Val::Some(x) | Val::Ok(x) | Val::Err(x) => wants_failure(x),
        Val::Map(m) => m.iter().any(|(k, v)| wants_failure(k) || wants_failure(v)),
        _ => false,
    }
}

/// clause `sinks-history`: a node writes a sequence of values, each through every sink; some
/// writes fail half way (a client codec returns an error). Every successful write must give one byte
/// stream in all sinks whatever happened before it, and a write fails only if its value asks for it.
/// Items are (entry, hex of the reference encoding of the value).
pub fn eval_sinks_history(cat: &Catalog, case: &Case) -> Evaluated {
    let mut finding = None;
    let mut last = "ok";
    for (i, (name, hx)) in case.batch.iter().enumerate() {
        let e = cat.by_name(name).unwrap();
        let Ok(d) = model::dec::ref_decode(&cat.reg, &e.ty, &model::unhex(hx)) else { continue };
        let f = e.encode_all;
        let should_fail = wants_failure(&d.val);
        let (out, _) = contain(u64::MAX, || f(&d.val));
        last = out.class();
        match &out {
            Outcome::Ok(s) => {
                if should_fail {
                    finding = Some(Finding { class: "accepted".into(), detail: format!("write {i} ({name}) succeeded although its codec reports an error") });
                } else if let Some(dis) = s.disagreement() {
                    finding = Some(Finding { class: "sinks".into(), detail: format!("write {i} ({name}) after {} earlier writes: {dis}", i) });
                } else if s.vec != (match contain(u64::MAX, || (e.encode)(&d.val)).0 { Outcome::Ok(b) => b, _ => s.vec.clone() }) {
                    finding = Some(Finding { class: "sinks".into(), detail: format!("write {i} ({name}): writing the same value again gave other bytes") });
                }
            }
            Outcome::Err(m) => {
                if !should_fail {
                    finding = Some(Finding { class: "rejected".into(), detail: format!("write {i} ({name}) failed: {m}") });
                }
            }
            Outcome::Panic(m) => finding = Some(Finding { class: "panic".into(), detail: format!("write {i} ({name}): {m}") }),
            Outcome::Hang => {}
        }
        if finding.is_some() {
            break;
        }
    }
    Evaluated { finding, outcome: last, meter: Meter::default() }
}

/// one primitive with its value, e.g. `varu32=16384`, `i64=-5`, `bytes=0a0b`, `compressed=00ff`
fn write_prim<O: BinaryOutput>(o: &mut O, kind: &str, val: &str) {
    match kind {
        "u8" => o.write_u8(val.parse().unwrap()),
        "i8" => o.write_i8(val.parse().unwrap()),
        "u16" => o.write_u16(val.parse().unwrap()),
        "i16" => o.write_i16(val.parse().unwrap()),
        "u32" => o.write_u32(val.parse().unwrap()),
        "i32" => o.write_i32(val.parse().unwrap()),
        "u64" => o.write_u64(val.parse().unwrap()),
        "i64" => o.write_i64(val.parse().unwrap()),
        "u128" => o.write_u128(val.parse().unwrap()),
        "i128" => o.write_i128(val.parse().unwrap()),
        "f32" => o.write_f32(f32::from_bits(val.parse().unwrap())),
        "f64" => o.write_f64(f64::from_bits(val.parse().unwrap())),
        "varu32" => o.write_var_u32(val.parse().unwrap()),
        "vari32" => o.write_var_i32(val.parse().unwrap()),
        "bytes" => o.write_bytes(&model::unhex(val)),
        "compressed" => {
            let _ = o.write_compressed(&model::unhex(val), Default::default());
        }
        k => panic!("unknown primitive {k}"),
    }
}

fn read_prim<I: BinaryInput>(i: &mut I, kind: &str, val: &str) -> String {
    fn show<T: std::fmt::Display>(r: desert::Result<T>) -> String {
        match r {
            Ok(v) => v.to_string(),
            Err(e) => format!("Err({e:?})"),
        }
    }
    match kind {
        "u8" => show(i.read_u8()),
        "i8" => show(i.read_i8()),
        "u16" => show(i.read_u16()),
        "i16" => show(i.read_i16()),
        "u32" => show(i.read_u32()),
        "i32" => show(i.read_i32()),
        "u64" => show(i.read_u64()),
        "i64" => show(i.read_i64()),
        "u128" => show(i.read_u128()),
        "i128" => show(i.read_i128()),
        "f32" => show(i.read_f32().map(|x| x.to_bits())),
        "f64" => show(i.read_f64().map(|x| x.to_bits())),
        "varu32" => show(i.read_var_u32()),
        "vari32" => show(i.read_var_i32()),
        "bytes" => show(i.read_bytes(val.len() / 2).map(model::hex)),
        "compressed" => show(i.read_compressed().map(|b| model::hex(&b))),
        k => panic!("unknown primitive {k}"),
    }
}

/// clause `prim-roundtrip`: a program of primitive writes gives one byte stream through every sink
/// (also through a serialization context, with and without a pushed chunk buffer) and an exact
/// size; read back through every source it gives the written values and consumes exactly the
/// bytes written.
pub fn eval_prim_roundtrip(case: &Case) -> Evaluated {
    let prog: Vec<(&str, &str)> = case
        .expected
        .as_deref()
        .unwrap_or("")
        .split(';')
        .filter(|s| !s.is_empty())
        .map(|s| s.split_once('=').unwrap())
        .collect();
    let mut finding = None;
    let (out, _) = contain(1 << 24, || {
        let mut a: Vec<u8> = Vec::new();
        let mut b = bytes::BytesMut::new();
        let mut c = desert::SizeCalculator::new();
        let mut d = crate::catalog::RecordingSink::default();
        let mut e = crate::catalog::PagedSink::new(3);
        let mut ctx = desert::SerializationContext::new(Vec::new());
        let mut ctx2 = desert::SerializationContext::new(Vec::new());
        ctx2.push_buffer(Vec::new());
        for (k, v) in &prog {
            write_prim(&mut a, k, v);
            write_prim(&mut b, k, v);
            write_prim(&mut c, k, v);
            write_prim(&mut d, k, v);
            write_prim(&mut e, k, v);
            write_prim(&mut ctx, k, v);
            write_prim(&mut ctx2, k, v);
        }
        let buffered = ctx2.pop_buffer();
        let direct = ctx2.into_output();
        Ok((a, b.to_vec(), c.size(), d.data, e.contents(), ctx.into_output(), buffered, direct))
    });
    let bytes = match out {
        Outcome::Ok((a, b, c, d, e, f, g, direct)) => {
            for (name, x) in [("BytesMut", &b), ("recording output", &d), ("paged output", &e), ("SerializationContext", &f), ("SerializationContext with a pushed buffer", &g)] {
                if *x != a {
                    finding = Some(Finding { class: "sinks".into(), detail: format!("{name} wrote {} bytes, Vec<u8> wrote {} bytes", x.len(), a.len()) });
                }
            }
            if finding.is_none() && !direct.is_empty() {
                finding = Some(Finding { class: "sinks".into(), detail: format!("{} bytes bypassed the pushed buffer of the serialization context", direct.len()) });
            }
            if finding.is_none() && c != a.len() {
                finding = Some(Finding { class: "sinks".into(), detail: format!("SizeCalculator reports {c} but {} bytes are written", a.len()) });
            }
            a
        }
        Outcome::Panic(m) => {
            return Evaluated { finding: Some(Finding { class: "panic".into(), detail: m }), outcome: "panic", meter: Meter::default() };
        }
        _ => vec![],
    };
    if finding.is_none() {
        for name in ["SliceInput", "OwnedInput", "DeserializationContext"] {
            let results = RefCell::new(Vec::new());
            let run = |i: &mut dyn FnMut(&str, &str) -> String, end: &mut dyn FnMut() -> bool| {
                for (k, v) in &prog {
                    results.borrow_mut().push(i(k, v));
                }
                end()
            };
            let (o, _) = contain(1 << 24, || {
                Ok(match name {
                    "SliceInput" => {
                        let mut inp = SliceInput::new(&bytes);
                        let p: *mut SliceInput = &mut inp;
                        run(&mut |k, v| read_prim(unsafe { &mut *p }, k, v), &mut || unsafe { &mut *p }.read_u8().is_err())
                    }
                    "OwnedInput" => {
                        let mut inp = OwnedInput::new(bytes.clone());
                        let p: *mut OwnedInput = &mut inp;
                        run(&mut |k, v| read_prim(unsafe { &mut *p }, k, v), &mut || unsafe { &mut *p }.read_u8().is_err())
                    }
                    _ => {
                        let mut inp = DeserializationContext::new(&bytes);
                        let p: *mut DeserializationContext = &mut inp;
                        run(&mut |k, v| read_prim(unsafe { &mut *p }, k, v), &mut || unsafe { &mut *p }.read_u8().is_err())
                    }
                })
            });
            let got = results.into_inner();
            for (i, (k, v)) in prog.iter().enumerate() {
                let want = if *k == "bytes" || *k == "compressed" { v.to_string() } else { v.to_string() };
                match got.get(i) {
                    Some(g) if *g == want => {}
                    g => {
                        finding = Some(Finding {
                            class: "value".into(),
                            detail: format!("{name}: primitive {i} ({k}={}) read back as {:?}", crate::case::brief(v), g),
                        });
                        break;
                    }
                }
            }
            if finding.is_none() {
                match o {
                    Outcome::Ok(true) => {}
                    Outcome::Ok(false) => finding = Some(Finding { class: "consumed".into(), detail: format!("{name}: bytes are left after reading back everything that was written") }),
                    Outcome::Panic(m) => finding = Some(Finding { class: "panic".into(), detail: format!("{name}: {m}") }),
                    _ => {}
                }
            }
            if finding.is_some() {
                break;
            }
        }
    }
    Evaluated { finding, outcome: "ok", meter: Meter::default() }
}

fn boundary_u32(rng: &mut Rng) -> u32 {
    let k = *rng.pick(&[7u32, 14, 21, 28, 31]);
    match rng.below(5) {
        0 => (1u32 << k).wrapping_sub(1),
        1 => 1u32 << k,
        2 => (1u32 << k).wrapping_add(1),
        3 => rng.next_u64() as u32,
        _ => rng.below(300) as u32,
    }
}

pub fn prim_program(rng: &mut Rng, n: usize) -> String {
    let mut parts = Vec::new();
    for _ in 0..n {
        let p = match rng.below(16) {
            0 => format!("u8={}", rng.next_u64() as u8),
            1 => format!("i8={}", rng.next_u64() as i8),
            2 => format!("u16={}", rng.next_u64() as u16),
            3 => format!("i16={}", rng.next_u64() as i16),
            4 => format!("u32={}", rng.next_u64() as u32),
            5 => format!("i32={}", rng.next_u64() as i32),
            6 => format!("u64={}", rng.next_u64()),
            7 => format!("i64={}", rng.next_u64() as i64),
            8 => format!("u128={}", ((rng.next_u64() as u128) << 64) | rng.next_u64() as u128),
            9 => format!("f32={}", rng.next_u64() as u32),
            10 => format!("f64={}", rng.next_u64()),
            11 | 12 => format!("varu32={}", boundary_u32(rng)),
            13 | 14 => {
                // zig-zag: both signs around every width boundary
                let m = boundary_u32(rng);
                let v = ((m >> 1) as i32) ^ -((m & 1) as i32);
                format!("vari32={v}")
            }
            _ if rng.chance(1, 150) => {
                // a frame of tens of kilobytes, a random share of it noise: the deflater flushes
                // several blocks, and an output that drains it meets short reads in mid-stream
                let len = 20_000 + rng.usize_below(110_000);
                let noisy = rng.usize_below(len + 1);
                let mut b = rng.bytes(noisy);
                b.extend((noisy..len).map(|i| (i % 7) as u8));
                format!("compressed={}", model::hex(&b))
            }
            _ => {
                let len = rng.usize_below(12);
                let b = rng.bytes(len);
                if rng.chance(1, 3) {
                    format!("compressed={}", model::hex(&b))
                } else {
                    format!("bytes={}", model::hex(&b))
                }
            }
        };
        parts.push(p);
    }
    parts.join(";")
}

fn case_hash(c: &Case) -> u64 {
    let mut h = mix(mix(fnv(c.read_as.as_bytes()), fnv(c.clause.as_bytes())), mix(fnv(&c.input), fnv(c.expected.as_deref().unwrap_or("").as_bytes())));
    for (n, x) in &c.batch {
        h = mix(h, mix(fnv(n.as_bytes()), fnv(x.as_bytes())));
    }
    h
}

struct Written {
    op: Op,
}

pub fn run(cat: &Catalog, cfg: &Config, stats: &mut Stats, run_seed: u64) -> Vec<Violation> {
    let root = Rng::new(run_seed);
    let mut sw = root.derive("swarm");
    let mut wl = root.derive("workload");
    let mut fl = root.derive("faults");
    stats.runs += 1;
    let mut violations = Vec::new();
    let mut trace = vec![format!("run_seed={run_seed}")];
    let mut submit = |case: Case, stats: &mut Stats, trace: &Vec<String>| {
        let ev = crate::case::eval(cat, &case);
        stats.cases += 1;
        stats.count(&format!("clause.{}", case.clause));
        stats.count(&format!("outcome.{}", ev.outcome));
        if case.fault_kind != "none" {
            stats.count(&format!("fault_fired.{}", case.fault_kind));
        }
        stats.distinct.insert(case_hash(&case));
        stats.note(case_hash(&case));
        stats.note(model::rng::fnv(ev.outcome.as_bytes()));
        stats.tuples.insert(format!("{}|{}|{}", case.read_as, case.clause, ev.outcome));
        if stats.samples.len() < 5 && case.input.len() < 60 {
            let mut j = case.to_json();
            j["outcome"] = json!(ev.outcome);
            stats.sample(j);
        }
        if let Some(f) = ev.finding {
            violations.push(Violation { case, finding: f, run_seed, trace: trace.clone() });
        }
    };

    // ---- sinks: a node writes values of a few types through every sink --------------------------
    if cfg.focus == "C15" {
        let size = 1 + sw.usize_below(24);
        let gen = Gen::new(&cat.reg, size);
        let n = 1 + sw.usize_below(4);
        for _ in 0..n {
            stats.events += 1;
            let e = &cat.entries[if sw.chance(1, 2) { sw.usize_below(cat.builtins) } else { sw.usize_below(cat.entries.len()) }];
            let v = gen.val(&e.ty, &mut wl);
            let enc = e.encode;
            if let Outcome::Ok(bytes) = contain(u64::MAX, || enc(&v)).0 {
                trace.push(format!("write {} ({} bytes) through all sinks", e.name, bytes.len()));
                let mut c = Case::new("C15", "sinks", e.name, bytes);
                c.fault = format!("value of {} teed through Vec<u8>, BytesMut, serialize_to_bytes, serialize_to_byte_vec, SizeCalculator, recording and paged outputs", e.name);
                submit(c, stats, &trace);
            }
        }
    }

    // ---- sinks, large frames: a client codec stores tens of kilobytes of poorly compressible bytes as
    // one compressed frame (the deflater then flushes several blocks; counting and copying outputs
    // meet short reads in the middle of the stream)
    if cfg.focus == "C15" && sw.chance(1, 64) {
        stats.events += 1;
        let e = cat.by_name(if sw.chance(1, 2) { "Zipped" } else { "(Zipped, String)" }).unwrap();
        let len = 20_000 + wl.usize_below(110_000);
        let noisy = wl.usize_below(len + 1);
        let mut content: Vec<u8> = (0..len).map(|i| if i < noisy { wl.below(256) as u8 } else { (i % 7) as u8 }).collect();
        if wl.chance(1, 2) {
            content.reverse();
        }
        let v = if e.name == "Zipped" { Val::Bytes(content) } else { Val::Tuple(vec![Val::Bytes(content), Val::Str("after".into())]) };
        let enc = e.encode;
        if let Outcome::Ok(bytes) = contain(u64::MAX, || enc(&v)).0 {
            stats.count("probe.large_frame_through_sinks");
            trace.push(format!("write {} ({} bytes, frame of {len} content bytes, {noisy} of them noise) through all sinks", e.name, bytes.len()));
            let mut c = Case::new("C15", "sinks", e.name, bytes);
            c.fault = format!("a frame of {len} content bytes teed through all sinks");
            submit(c, stats, &trace);
        }
    }

    // ---- sinks with history: a sequence of writes, some of which fail half way ---------------------
    if cfg.focus == "C15" && sw.chance(1, 2) {
        stats.events += 1;
        let size = 1 + sw.usize_below(12);
        let gen = Gen::new(&cat.reg, size);
        let fragile = ["Fragile", "(String, Fragile)", "Vec<Fragile>", "Brittle", "Vec<Brittle>", "(Brittle, Point)"];
        let n = 2 + sw.usize_below(5);
        let mut batch = Vec::new();
        for _ in 0..n {
            let e = if sw.chance(1, 2) {
                cat.by_name(*sw.pick(&fragile[..])).unwrap()
            } else {
                &cat.entries[sw.usize_below(cat.entries.len())]
            };
            let v = gen.val(&e.ty, &mut wl);
            batch.push((e.name.to_string(), model::hex(&model::enc::ref_encode(&cat.reg, &e.ty, &v, model::enc::Forms::canonical()))));
        }
        trace.push(format!("a node writes {:?} through all sinks, one after another", batch.iter().map(|b| b.0.as_str()).collect::<Vec<_>>()));
        let mut c = Case::new("C15", "sinks-history", &batch[0].0.clone(), vec![]);
        c.batch = batch;
        c.fault = "sequence of writes through every sink; writes whose client codec reports an error fail half way".into();
        c.fault_kind = "failed-write".into();
        submit(c, stats, &trace);
    }

    // ---- primitives written through every sink and read back through every source ----------------
    if cfg.focus == "C15" || cfg.focus == "C07" {
        stats.events += 1;
        let n = 1 + sw.usize_below(12);
        let text = prim_program(&mut wl, n);
        trace.push(format!("primitive program: {}", crate::case::brief(&text)));
        let mut c = Case::new(&cfg.focus, "prim-roundtrip", "-", vec![]);
        c.expected = Some(text);
        c.fault = "primitives (boundary-biased varints) through all sinks and back through all sources".into();
        submit(c, stats, &trace);
        if cfg.focus == "C07" {
            return violations;
        }
    }

    // ---- sources: a program of primitive reads over a written, then cut, buffer -----------------
    stats.events += 1;
    let nops = 1 + sw.usize_below(40);
    let mut buf: Vec<u8> = Vec::new();
    let mut written: Vec<Written> = Vec::new();
    for _ in 0..nops {
        let op = match wl.below(17) {
            0 => Op::U8,
            1 => Op::I8,
            2 => Op::U16,
            3 => Op::I16,
            4 => Op::U32,
            5 => Op::I32,
            6 => Op::U64,
            7 => Op::I64,
            8 => Op::U128,
            9 => Op::I128,
            10 => Op::F32,
            11 => Op::F64,
            12 => Op::VarU32,
            13 => Op::VarI32,
            14 => Op::Bytes(wl.usize_below(20)),
            15 => Op::Skip(wl.usize_below(20)),
            _ => Op::Compressed,
        };
        match &op {
            Op::U8 | Op::I8 => buf.write_u8(wl.next_u64() as u8),
            Op::U16 | Op::I16 => buf.write_u16(wl.next_u64() as u16),
            Op::U32 | Op::I32 | Op::F32 => buf.write_u32(wl.next_u64() as u32),
            Op::U64 | Op::I64 | Op::F64 => buf.write_u64(wl.next_u64()),
            Op::U128 | Op::I128 => buf.write_u128(((wl.next_u64() as u128) << 64) | wl.next_u64() as u128),
            Op::VarU32 => buf.write_var_u32(match wl.below(3) {
                0 => wl.below(128) as u32,
                1 => wl.below(1 << 21) as u32,
                _ => wl.next_u64() as u32,
            }),
            Op::VarI32 => buf.write_var_i32(match wl.below(3) {
                0 => wl.range(-64, 63) as i32,
                _ => wl.next_u64() as i32,
            }),
            Op::Bytes(n) | Op::Skip(n) => buf.write_bytes(&wl.bytes(*n)),
            Op::Compressed => {
                let n = wl.usize_below(200);
                let d = if wl.chance(1, 2) { vec![7u8; n] } else { wl.bytes(n) };
                let _ = buf.write_compressed(&d, Default::default());
            }
        }
        written.push(Written { op });
    }
    // the read program: mostly what was written, sometimes something else, sometimes a hostile length
    let mut prog: Vec<Op> = Vec::new();
    let hostile = [0usize, 1, 1 << 31, 1 << 63, usize::MAX, usize::MAX - 1, usize::MAX / 2 + 1];
    for w in &written {
        let op = match fl.below(10) {
            0 => {
                stats.count("fault_configured.F-eof");
                let n = match fl.below(3) {
                    0 => *fl.pick(&hostile),
                    1 => buf.len() + fl.usize_below(3),
                    _ => buf.len().saturating_sub(fl.usize_below(buf.len() + 1)),
                };
                if fl.chance(1, 2) {
                    Op::Bytes(n)
                } else {
                    Op::Skip(n)
                }
            }
            1 => match fl.below(6) {
                0 => Op::U8,
                1 => Op::VarU32,
                2 => Op::VarI32,
                3 => Op::U64,
                4 => Op::Compressed,
                _ => Op::U128,
            },
            _ => w.op.clone(),
        };
        prog.push(op);
    }
    // where EOF falls
    if fl.chance(2, 3) && !buf.is_empty() {
        let k = fl.usize_below(buf.len());
        buf.truncate(k);
        stats.count("fault_configured.F-cut");
    }
    let text: String = prog.iter().map(|o| o.to_text()).collect::<Vec<_>>().join(";");
    trace.push(format!("read program of {} operations over a buffer of {} bytes", prog.len(), buf.len()));
    let has_hostile = prog.iter().any(|o| matches!(o, Op::Bytes(n) | Op::Skip(n) if *n > buf.len()));
    if cfg.focus == "C15" {
        let mut c = Case::new("C15", "sources", "-", buf.clone());
        c.expected = Some(text.clone());
        c.fault = "the same program on SliceInput, OwnedInput and DeserializationContext".into();
        c.fault_kind = if has_hostile { "F-eof".into() } else { "F-cut".into() };
        submit(c, stats, &trace);
    } else {
        // C05: only reads and skips (their position is a function of the results)
        let prog2: Vec<Op> = prog
            .iter()
            .map(|o| match o {
                Op::Bytes(_) | Op::Skip(_) => o.clone(),
                _ => {
                    if fl.chance(1, 2) {
                        Op::Skip(fl.usize_below(9))
                    } else {
                        Op::Bytes(*fl.pick(&hostile))
                    }
                }
            })
            .collect();
        let text2: String = prog2.iter().map(|o| o.to_text()).collect::<Vec<_>>().join(";");
        let mut c = Case::new("C05", "eof-reject", "-", buf.clone());
        c.expected = Some(text2);
        c.fault = "requested lengths that do not fit must be rejected by all three inputs".into();
        c.fault_kind = "F-eof".into();
        submit(c, stats, &trace);
    }
    violations
}
