//! Bridge between real Rust types and the reference universe. The generic impls mirror the
//! library's own generic codecs; derived declarations get hand-written or generated impls.

use desert::{BinaryDeserializer, BinarySerializer};
use model::dec::{bigdecimal_val, date_val, time_val};
use model::ty::*;
use std::collections::{BTreeMap, BTreeSet, HashMap, HashSet, LinkedList};
use std::hash::Hash;
use std::rc::Rc;
use std::sync::Arc;
use std::time::Duration;

pub trait Bridge: Sized + BinarySerializer + BinaryDeserializer + 'static {
    fn ty() -> Ty;
    /// registers the declarations this type depends on
    fn register(_reg: &mut Registry) {}
    fn to_val(&self) -> Val;
    fn from_val(v: &Val) -> Self;
}

macro_rules! uint {
    ($t:ty, $v:ident) => {
        impl Bridge for $t {
            fn ty() -> Ty {
                Ty::$v
            }
            fn to_val(&self) -> Val {
                Val::U(*self as u128)
            }
            fn from_val(v: &Val) -> Self {
                v.as_u() as $t
            }
        }
    };
}
macro_rules! sint {
    ($t:ty, $v:ident) => {
        impl Bridge for $t {
            fn ty() -> Ty {
                Ty::$v
            }
            fn to_val(&self) -> Val {
                Val::I(*self as i128)
            }
            fn from_val(v: &Val) -> Self {
                v.as_i() as $t
            }
        }
    };
}
uint!(u8, U8);
uint!(u16, U16);
uint!(u32, U32);
uint!(u64, U64);
uint!(u128, U128);
sint!(i8, I8);
sint!(i16, I16);
sint!(i32, I32);
sint!(i64, I64);
sint!(i128, I128);

impl Bridge for f32 {
    fn ty() -> Ty {
        Ty::F32
    }
    fn to_val(&self) -> Val {
        Val::F32(self.to_bits())
    }
    fn from_val(v: &Val) -> Self {
        match v {
            Val::F32(b) => f32::from_bits(*b),
            o => panic!("bridge: {o:?}"),
        }
    }
}
impl Bridge for f64 {
    fn ty() -> Ty {
        Ty::F64
    }
    fn to_val(&self) -> Val {
        Val::F64(self.to_bits())
    }
    fn from_val(v: &Val) -> Self {
        match v {
            Val::F64(b) => f64::from_bits(*b),
            o => panic!("bridge: {o:?}"),
        }
    }
}
impl Bridge for bool {
    fn ty() -> Ty {
        Ty::Bool
    }
    fn to_val(&self) -> Val {
        Val::Bool(*self)
    }
    fn from_val(v: &Val) -> Self {
        matches!(v, Val::Bool(true))
    }
}
impl Bridge for () {
    fn ty() -> Ty {
        Ty::Unit
    }
    fn to_val(&self) -> Val {
        Val::Unit
    }
    fn from_val(_: &Val) -> Self {}
}
impl Bridge for char {
    fn ty() -> Ty {
        Ty::Char
    }
    fn to_val(&self) -> Val {
        let mut b = [0u16; 2];
        let e = self.encode_utf16(&mut b);
        Val::Char(e[0])
    }
    fn from_val(v: &Val) -> Self {
        match v {
            Val::Char(c) => char::from_u32(*c as u32).unwrap(),
            o => panic!("bridge: {o:?}"),
        }
    }
}
impl Bridge for String {
    fn ty() -> Ty {
        Ty::Str
    }
    fn to_val(&self) -> Val {
        Val::Str(self.clone())
    }
    fn from_val(v: &Val) -> Self {
        v.as_str().to_string()
    }
}

/// `DeduplicatedString` has no Debug/PartialEq; wrap it
pub struct Dedup(pub desert::DeduplicatedString);
impl BinarySerializer for Dedup {
    fn serialize<O: desert::BinaryOutput>(
        &self,
        context: &mut desert::SerializationContext<O>,
    ) -> desert::Result<()> {
        self.0.serialize(context)
    }
}
impl BinaryDeserializer for Dedup {
    fn deserialize(context: &mut desert::DeserializationContext<'_>) -> desert::Result<Self> {
        Ok(Dedup(desert::DeduplicatedString::deserialize(context)?))
    }
}
impl PartialEq for Dedup {
    fn eq(&self, o: &Self) -> bool {
        self.0 .0 == o.0 .0
    }
}
impl Eq for Dedup {}
impl std::hash::Hash for Dedup {
    fn hash<H: std::hash::Hasher>(&self, h: &mut H) {
        self.0 .0.hash(h)
    }
}
impl PartialOrd for Dedup {
    fn partial_cmp(&self, o: &Self) -> Option<std::cmp::Ordering> {
        Some(self.cmp(o))
    }
}
impl Ord for Dedup {
    fn cmp(&self, o: &Self) -> std::cmp::Ordering {
        self.0 .0.cmp(&o.0 .0)
    }
}
impl Bridge for Dedup {
    fn ty() -> Ty {
        Ty::DedupStr
    }
    fn to_val(&self) -> Val {
        Val::Str(self.0 .0.clone())
    }
    fn from_val(v: &Val) -> Self {
        Dedup(desert::DeduplicatedString(v.as_str().to_string()))
    }
}

/// a writer that streams its elements: the real `serialize_iterator` with an inexact size hint,
/// i.e. the unknown-length form written by real code; read back as a vector
pub struct Streamed<T>(pub Vec<T>);
impl<T: BinarySerializer> BinarySerializer for Streamed<T> {
    fn serialize<O: desert::BinaryOutput>(
        &self,
        context: &mut desert::SerializationContext<O>,
    ) -> desert::Result<()> {
        // size hint (n, Some(2n)) for n items: neither exact nor unbounded
        let mut it = self.0.iter().chain(self.0.iter().filter(|_| false));
        desert::serialize_iterator(&mut it, context)
    }
}
impl<T: BinaryDeserializer> BinaryDeserializer for Streamed<T> {
    fn deserialize(context: &mut desert::DeserializationContext<'_>) -> desert::Result<Self> {
        Ok(Streamed(Vec::<T>::deserialize(context)?))
    }
}
impl<T: Bridge> Bridge for Streamed<T> {
    fn ty() -> Ty {
        Ty::Seq(Box::new(T::ty()), SeqKind::Vec)
    }
    fn register(reg: &mut Registry) {
        T::register(reg)
    }
    fn to_val(&self) -> Val {
        Val::Seq(self.0.iter().map(|x| x.to_val()).collect())
    }
    fn from_val(v: &Val) -> Self {
        Streamed(seq_from_val(v))
    }
}

/// written through the slice codec (`impl BinarySerializer for [T]`, hand-written count + items,
/// byte form for u8), read back as a vector
pub struct SliceOf<T>(pub Vec<T>);
impl<T: BinarySerializer + 'static> BinarySerializer for SliceOf<T> {
    fn serialize<O: desert::BinaryOutput>(
        &self,
        context: &mut desert::SerializationContext<O>,
    ) -> desert::Result<()> {
        self.0.as_slice().serialize(context)
    }
}
impl<T: BinaryDeserializer> BinaryDeserializer for SliceOf<T> {
    fn deserialize(context: &mut desert::DeserializationContext<'_>) -> desert::Result<Self> {
        Ok(SliceOf(Vec::<T>::deserialize(context)?))
    }
}
impl<T: Bridge> Bridge for SliceOf<T> {
    fn ty() -> Ty {
        seq_ty(T::ty(), SeqKind::Vec)
    }
    fn register(reg: &mut Registry) {
        T::register(reg)
    }
    fn to_val(&self) -> Val {
        seq_to_val(T::ty() == Ty::U8, self.0.iter())
    }
    fn from_val(v: &Val) -> Self {
        SliceOf(seq_from_val(v))
    }
}

/// a client codec over the reference table of the contexts (`store_ref_or_object` /
/// `try_read_ref`): equal strings are one shared object, written once and referred to afterwards
pub struct SharedStrs(pub Vec<std::rc::Rc<String>>);
impl BinarySerializer for SharedStrs {
    fn serialize<O: desert::BinaryOutput>(
        &self,
        context: &mut desert::SerializationContext<O>,
    ) -> desert::Result<()> {
        use desert::BinaryOutput;
        context.write_var_u32(self.0.len() as u32);
        for r in &self.0 {
            if context.store_ref_or_object(&**r)? {
                r.as_str().serialize(context)?;
            }
        }
        Ok(())
    }
}
impl BinaryDeserializer for SharedStrs {
    fn deserialize(context: &mut desert::DeserializationContext<'_>) -> desert::Result<Self> {
        use desert::BinaryInput;
        let n = context.read_var_u32()?;
        let mut out = Vec::new();
        for _ in 0..n {
            let known = match context.try_read_ref()? {
                Some(any) => Some(any.downcast_ref::<String>().expect("a shared string").clone()),
                None => None,
            };
            match known {
                Some(s) => out.push(std::rc::Rc::new(s)),
                None => {
                    let rc = std::rc::Rc::new(String::deserialize(context)?);
                    // the table keeps a raw pointer: the object must outlive the context
                    std::mem::forget(rc.clone());
                    context.state_mut().store_ref(&*rc);
                    out.push(rc);
                }
            }
        }
        Ok(SharedStrs(out))
    }
}
impl Bridge for SharedStrs {
    fn ty() -> Ty {
        Ty::SharedStrs
    }
    fn to_val(&self) -> Val {
        Val::Seq(self.0.iter().map(|r| Val::Str((**r).clone())).collect())
    }
    fn from_val(v: &Val) -> Self {
        let mut objs: Vec<std::rc::Rc<String>> = Vec::new();
        let mut out = Vec::new();
        for it in v.items() {
            let s = match it {
                Val::Str(s) => s,
                o => panic!("bridge: shared string {o:?}"),
            };
            let rc = match objs.iter().find(|r| ***r == *s) {
                Some(r) => r.clone(),
                None => {
                    let r = std::rc::Rc::new(s.clone());
                    // reference ids are keyed by address for the lifetime of a context, and several
                    // values go through one context: these objects are never freed, so no address
                    // is met twice
                    std::mem::forget(r.clone());
                    objs.push(r.clone());
                    r
                }
            };
            out.push(rc);
        }
        SharedStrs(out)
    }
}

/// written through the `str` codec and through a reference (`impl BinarySerializer for &T`)
pub struct StrOf(pub String);
impl BinarySerializer for StrOf {
    fn serialize<O: desert::BinaryOutput>(
        &self,
        context: &mut desert::SerializationContext<O>,
    ) -> desert::Result<()> {
        let s: &str = self.0.as_str();
        (&s).serialize(context)
    }
}
impl BinaryDeserializer for StrOf {
    fn deserialize(context: &mut desert::DeserializationContext<'_>) -> desert::Result<Self> {
        Ok(StrOf(String::deserialize(context)?))
    }
}
impl Bridge for StrOf {
    fn ty() -> Ty {
        Ty::Str
    }
    fn to_val(&self) -> Val {
        Val::Str(self.0.clone())
    }
    fn from_val(v: &Val) -> Self {
        StrOf(v.as_str().to_string())
    }
}

/// written through `Rc<[T]>` (`impl BinarySerializer for Rc<T: ?Sized>` over the slice codec)
pub struct RcSlice<T>(pub Rc<[T]>);
impl<T: BinarySerializer + 'static> BinarySerializer for RcSlice<T> {
    fn serialize<O: desert::BinaryOutput>(
        &self,
        context: &mut desert::SerializationContext<O>,
    ) -> desert::Result<()> {
        self.0.serialize(context)
    }
}
impl<T: BinaryDeserializer> BinaryDeserializer for RcSlice<T> {
    fn deserialize(context: &mut desert::DeserializationContext<'_>) -> desert::Result<Self> {
        Ok(RcSlice(Vec::<T>::deserialize(context)?.into()))
    }
}
impl<T: Bridge> Bridge for RcSlice<T> {
    fn ty() -> Ty {
        seq_ty(T::ty(), SeqKind::Vec)
    }
    fn register(reg: &mut Registry) {
        T::register(reg)
    }
    fn to_val(&self) -> Val {
        seq_to_val(T::ty() == Ty::U8, self.0.iter())
    }
    fn from_val(v: &Val) -> Self {
        RcSlice(seq_from_val::<T>(v).into())
    }
}

impl<T: 'static> Bridge for std::marker::PhantomData<T> {
    fn ty() -> Ty {
        Ty::Unit
    }
    fn to_val(&self) -> Val {
        Val::Unit
    }
    fn from_val(_: &Val) -> Self {
        std::marker::PhantomData
    }
}

impl Bridge for Duration {
    fn ty() -> Ty {
        Ty::Duration
    }
    fn to_val(&self) -> Val {
        Val::Tuple(vec![Val::U(self.as_secs() as u128), Val::U(self.subsec_nanos() as u128)])
    }
    fn from_val(v: &Val) -> Self {
        let p = v.items();
        Duration::new(p[0].as_u() as u64, p[1].as_u() as u32)
    }
}

impl<T: Bridge> Bridge for Option<T> {
    fn ty() -> Ty {
        Ty::Opt(Box::new(T::ty()))
    }
    fn register(reg: &mut Registry) {
        T::register(reg)
    }
    fn to_val(&self) -> Val {
        match self {
            None => Val::None,
            Some(x) => Val::some(x.to_val()),
        }
    }
    fn from_val(v: &Val) -> Self {
        match v {
            Val::None => None,
            Val::Some(x) => Some(T::from_val(x)),
            o => panic!("bridge: {o:?}"),
        }
    }
}

impl<R: Bridge, E: Bridge> Bridge for Result<R, E> {
    fn ty() -> Ty {
        Ty::Res(Box::new(R::ty()), Box::new(E::ty()))
    }
    fn register(reg: &mut Registry) {
        R::register(reg);
        E::register(reg);
    }
    fn to_val(&self) -> Val {
        match self {
            Ok(x) => Val::Ok(Box::new(x.to_val())),
            Err(x) => Val::Err(Box::new(x.to_val())),
        }
    }
    fn from_val(v: &Val) -> Self {
        match v {
            Val::Ok(x) => Ok(R::from_val(x)),
            Val::Err(x) => Err(E::from_val(x)),
            o => panic!("bridge: {o:?}"),
        }
    }
}

macro_rules! tuple {
    ($($n:tt $t:ident),+) => {
        impl<$($t: Bridge),+> Bridge for ($($t,)+) {
            fn ty() -> Ty { Ty::Tuple(vec![$($t::ty()),+]) }
            fn register(reg: &mut Registry) { $($t::register(reg);)+ }
            fn to_val(&self) -> Val { Val::Tuple(vec![$(self.$n.to_val()),+]) }
            fn from_val(v: &Val) -> Self {
                let p = v.items();
                ($($t::from_val(&p[$n]),)+)
            }
        }
    };
}
tuple!(0 A);
tuple!(0 A, 1 B);
tuple!(0 A, 1 B, 2 C);
tuple!(0 A, 1 B, 2 C, 3 D);
tuple!(0 A, 1 B, 2 C, 3 D, 4 E);
tuple!(0 A, 1 B, 2 C, 3 D, 4 E, 5 F);
tuple!(0 A, 1 B, 2 C, 3 D, 4 E, 5 F, 6 G);
tuple!(0 A, 1 B, 2 C, 3 D, 4 E, 5 F, 6 G, 7 H);

fn seq_ty(elem: Ty, kind: SeqKind) -> Ty {
    if elem == Ty::U8 {
        match kind {
            SeqKind::Vec => return Ty::Bytes(BytesKind::Vec),
            SeqKind::Array(n) => return Ty::Bytes(BytesKind::Array(n)),
            _ => {}
        }
    }
    Ty::Seq(Box::new(elem), kind)
}

fn seq_to_val<'a, T: Bridge>(bytes_form: bool, it: impl Iterator<Item = &'a T>) -> Val {
    if bytes_form {
        Val::Bytes(it.map(|x| x.to_val().as_u() as u8).collect())
    } else {
        Val::Seq(it.map(|x| x.to_val()).collect())
    }
}

fn seq_from_val<T: Bridge>(v: &Val) -> Vec<T> {
    match v {
        Val::Bytes(b) => b.iter().map(|x| T::from_val(&Val::U(*x as u128))).collect(),
        Val::Seq(xs) => xs.iter().map(T::from_val).collect(),
        o => panic!("bridge: {o:?}"),
    }
}

impl<T: Bridge> Bridge for Vec<T> {
    fn ty() -> Ty {
        seq_ty(T::ty(), SeqKind::Vec)
    }
    fn register(reg: &mut Registry) {
        T::register(reg)
    }
    fn to_val(&self) -> Val {
        seq_to_val(T::ty() == Ty::U8, self.iter())
    }
    fn from_val(v: &Val) -> Self {
        seq_from_val(v)
    }
}

impl<T: Bridge, const N: usize> Bridge for [T; N] {
    fn ty() -> Ty {
        seq_ty(T::ty(), SeqKind::Array(N))
    }
    fn register(reg: &mut Registry) {
        T::register(reg)
    }
    fn to_val(&self) -> Val {
        seq_to_val(T::ty() == Ty::U8, self.iter())
    }
    fn from_val(v: &Val) -> Self {
        let items: Vec<T> = seq_from_val(v);
        match items.try_into() {
            Ok(a) => a,
            Err(_) => panic!("bridge: array length"),
        }
    }
}

impl<T: Bridge + Eq + Hash> Bridge for LinkedList<T> {
    fn ty() -> Ty {
        Ty::Seq(Box::new(T::ty()), SeqKind::List)
    }
    fn register(reg: &mut Registry) {
        T::register(reg)
    }
    fn to_val(&self) -> Val {
        Val::Seq(self.iter().map(|x| x.to_val()).collect())
    }
    fn from_val(v: &Val) -> Self {
        seq_from_val::<T>(v).into_iter().collect()
    }
}

impl<T: Bridge + Eq + Hash> Bridge for HashSet<T> {
    fn ty() -> Ty {
        Ty::Seq(Box::new(T::ty()), SeqKind::HashSet)
    }
    fn register(reg: &mut Registry) {
        T::register(reg)
    }
    fn to_val(&self) -> Val {
        canon_set(self.iter().map(|x| x.to_val()).collect())
    }
    fn from_val(v: &Val) -> Self {
        seq_from_val::<T>(v).into_iter().collect()
    }
}

impl<T: Bridge + Ord> Bridge for BTreeSet<T> {
    fn ty() -> Ty {
        Ty::Seq(Box::new(T::ty()), SeqKind::BTreeSet)
    }
    fn register(reg: &mut Registry) {
        T::register(reg)
    }
    fn to_val(&self) -> Val {
        canon_set(self.iter().map(|x| x.to_val()).collect())
    }
    fn from_val(v: &Val) -> Self {
        seq_from_val::<T>(v).into_iter().collect()
    }
}

fn map_from_val<K: Bridge, V: Bridge>(v: &Val) -> Vec<(K, V)> {
    match v {
        Val::Map(xs) => xs.iter().map(|(k, v)| (K::from_val(k), V::from_val(v))).collect(),
        o => panic!("bridge: {o:?}"),
    }
}

impl<K: Bridge + Eq + Hash, V: Bridge> Bridge for HashMap<K, V> {
    fn ty() -> Ty {
        Ty::Map(Box::new(K::ty()), Box::new(V::ty()), MapKind::Hash)
    }
    fn register(reg: &mut Registry) {
        K::register(reg);
        V::register(reg);
    }
    fn to_val(&self) -> Val {
        canon_map(self.iter().map(|(k, v)| (k.to_val(), v.to_val())).collect())
    }
    fn from_val(v: &Val) -> Self {
        map_from_val(v).into_iter().collect()
    }
}

impl<K: Bridge + Ord, V: Bridge> Bridge for BTreeMap<K, V> {
    fn ty() -> Ty {
        Ty::Map(Box::new(K::ty()), Box::new(V::ty()), MapKind::BTree)
    }
    fn register(reg: &mut Registry) {
        K::register(reg);
        V::register(reg);
    }
    fn to_val(&self) -> Val {
        canon_map(self.iter().map(|(k, v)| (k.to_val(), v.to_val())).collect())
    }
    fn from_val(v: &Val) -> Self {
        map_from_val(v).into_iter().collect()
    }
}

macro_rules! boxed {
    ($p:ident) => {
        impl<T: Bridge> Bridge for $p<T> {
            fn ty() -> Ty {
                Ty::Boxed(Box::new(T::ty()))
            }
            fn register(reg: &mut Registry) {
                T::register(reg)
            }
            fn to_val(&self) -> Val {
                (**self).to_val()
            }
            fn from_val(v: &Val) -> Self {
                $p::new(T::from_val(v))
            }
        }
    };
}
boxed!(Box);
boxed!(Rc);
boxed!(Arc);

impl Bridge for bytes::Bytes {
    fn ty() -> Ty {
        Ty::Bytes(BytesKind::Buf)
    }
    fn to_val(&self) -> Val {
        Val::Bytes(self.to_vec())
    }
    fn from_val(v: &Val) -> Self {
        bytes::Bytes::from(v.as_bytes().to_vec())
    }
}

impl Bridge for uuid::Uuid {
    fn ty() -> Ty {
        Ty::Uuid
    }
    fn to_val(&self) -> Val {
        Val::Bytes(self.as_bytes().to_vec())
    }
    fn from_val(v: &Val) -> Self {
        uuid::Uuid::from_slice(v.as_bytes()).unwrap()
    }
}

// ---- chrono -------------------------------------------------------------------------------

use chrono::{DateTime, FixedOffset, Local, Month, NaiveDate, NaiveDateTime, NaiveTime, TimeZone, Utc, Weekday};
use chrono_tz::Tz;
use std::str::FromStr;

fn date_from(v: &Val) -> NaiveDate {
    let p = v.items();
    NaiveDate::from_ymd_opt(p[0].as_i() as i32, p[1].as_u() as u32, p[2].as_u() as u32).unwrap()
}
fn time_from(v: &Val) -> NaiveTime {
    let p = v.items();
    NaiveTime::from_hms_nano_opt(p[0].as_u() as u32, p[1].as_u() as u32, p[2].as_u() as u32, p[3].as_u() as u32)
        .unwrap()
}
fn naive_from(v: &Val) -> NaiveDateTime {
    let p = v.items();
    NaiveDateTime::new(date_from(&p[0]), time_from(&p[1]))
}
fn naive_val(n: &NaiveDateTime) -> Val {
    Val::Tuple(vec![date_val(&n.date()), time_val(&n.time())])
}

impl Bridge for Weekday {
    fn ty() -> Ty {
        Ty::Weekday
    }
    fn to_val(&self) -> Val {
        Val::U(self.number_from_monday() as u128)
    }
    fn from_val(v: &Val) -> Self {
        use bigdecimal::FromPrimitive;
        Weekday::from_u128(v.as_u() - 1).unwrap()
    }
}
impl Bridge for Month {
    fn ty() -> Ty {
        Ty::Month
    }
    fn to_val(&self) -> Val {
        Val::U(self.number_from_month() as u128)
    }
    fn from_val(v: &Val) -> Self {
        use bigdecimal::FromPrimitive;
        Month::from_u128(v.as_u()).unwrap()
    }
}
impl Bridge for FixedOffset {
    fn ty() -> Ty {
        Ty::FixedOffset
    }
    fn to_val(&self) -> Val {
        Val::I(self.local_minus_utc() as i128)
    }
    fn from_val(v: &Val) -> Self {
        FixedOffset::east_opt(v.as_i() as i32).unwrap()
    }
}
impl Bridge for Tz {
    fn ty() -> Ty {
        Ty::Tz
    }
    fn to_val(&self) -> Val {
        Val::Str(self.name().to_string())
    }
    fn from_val(v: &Val) -> Self {
        Tz::from_str(v.as_str()).unwrap()
    }
}
impl Bridge for DateTime<Utc> {
    fn ty() -> Ty {
        Ty::DateTimeUtc
    }
    fn to_val(&self) -> Val {
        Val::Tuple(vec![Val::I(self.timestamp() as i128), Val::U(self.timestamp_subsec_nanos() as u128)])
    }
    fn from_val(v: &Val) -> Self {
        let p = v.items();
        DateTime::<Utc>::from_timestamp(p[0].as_i() as i64, p[1].as_u() as u32).unwrap()
    }
}
impl Bridge for NaiveDate {
    fn ty() -> Ty {
        Ty::NaiveDate
    }
    fn to_val(&self) -> Val {
        date_val(self)
    }
    fn from_val(v: &Val) -> Self {
        date_from(v)
    }
}
impl Bridge for NaiveTime {
    fn ty() -> Ty {
        Ty::NaiveTime
    }
    fn to_val(&self) -> Val {
        time_val(self)
    }
    fn from_val(v: &Val) -> Self {
        time_from(v)
    }
}
impl Bridge for NaiveDateTime {
    fn ty() -> Ty {
        Ty::NaiveDateTime
    }
    fn to_val(&self) -> Val {
        naive_val(self)
    }
    fn from_val(v: &Val) -> Self {
        naive_from(v)
    }
}
impl Bridge for DateTime<Local> {
    fn ty() -> Ty {
        Ty::DateTimeLocal
    }
    fn to_val(&self) -> Val {
        Val::Tuple(vec![date_val(&self.date_naive()), time_val(&self.time())])
    }
    fn from_val(v: &Val) -> Self {
        Local.from_local_datetime(&naive_from(v)).single().unwrap()
    }
}
impl Bridge for DateTime<FixedOffset> {
    fn ty() -> Ty {
        Ty::DateTimeFixed
    }
    fn to_val(&self) -> Val {
        Val::Tuple(vec![naive_val(&self.naive_local()), Val::I(self.offset().local_minus_utc() as i128)])
    }
    fn from_val(v: &Val) -> Self {
        let p = v.items();
        FixedOffset::east_opt(p[1].as_i() as i32)
            .unwrap()
            .from_local_datetime(&naive_from(&p[0]))
            .single()
            .unwrap()
    }
}
impl Bridge for DateTime<Tz> {
    fn ty() -> Ty {
        Ty::DateTimeTz
    }
    fn to_val(&self) -> Val {
        Val::Tuple(vec![naive_val(&self.naive_utc()), Val::Str(self.timezone().name().to_string())])
    }
    fn from_val(v: &Val) -> Self {
        let p = v.items();
        Tz::from_str(p[1].as_str()).unwrap().from_utc_datetime(&naive_from(&p[0]))
    }
}

// ---- big numbers --------------------------------------------------------------------------

use bigdecimal::num_bigint::BigInt;
use bigdecimal::BigDecimal;

impl Bridge for BigInt {
    fn ty() -> Ty {
        Ty::BigInt
    }
    fn to_val(&self) -> Val {
        Val::Bytes(self.to_signed_bytes_be())
    }
    fn from_val(v: &Val) -> Self {
        BigInt::from_signed_bytes_be(v.as_bytes())
    }
}
impl Bridge for BigDecimal {
    fn ty() -> Ty {
        Ty::BigDecimal
    }
    fn to_val(&self) -> Val {
        bigdecimal_val(self)
    }
    fn from_val(v: &Val) -> Self {
        let p = v.items();
        BigDecimal::new(BigInt::from_signed_bytes_be(p[0].as_bytes()), p[1].as_i() as i64)
    }
}
