//! Engine `wal`: writers append records of catalogue types to segments of a simulated disk, a
//! crash applies a fault plan to the stored bytes, a recovering node scans the segment.
//! Serves C05 (total), C06 (no-invention), C07 (self-delimiting, batch), C08 (truncation).

use crate::case::{eval, Case, Violation};
use crate::catalog::{Catalog, Entry};
use crate::exec::contain;
use crate::stats::Stats;
use model::dec::{ref_decode, ref_marks, Mark};
use model::faults::{self, FaultKind, ALL_KINDS};
use model::gen::Gen;
use model::rng::{fnv, Rng};
use model::ty::Val;
use serde_json::json;

pub struct Record {
    pub entry: usize,
    pub val: Val,
    pub bytes: Vec<u8>,
    pub marks: Vec<Mark>,
    pub durable: bool,
    pub damaged: Option<(FaultKind, String)>,
    pub stored: Vec<u8>,
}

pub struct Config {
    pub focus: String,
    pub max_buf: usize,
    /// enumerate every cut point of the last record (C08 fault enumeration)
    pub enumerate_cuts: bool,
    /// one run in eight lets real code encode hash containers with several elements. Their
    /// iteration order differs from process to process, so the bytes of such runs (not their
    /// verdicts) are unrepeatable; they are left out of the canonical event log and the determinism
    /// self-test switches them off.
    pub unordered: bool,
}

fn case_hash(c: &Case, outcome: &str) -> u64 {
    let mut h = fnv(c.read_as.as_bytes());
    h = model::rng::mix(h, fnv(c.clause.as_bytes()));
    h = model::rng::mix(h, fnv(outcome.as_bytes()));
    model::rng::mix(h, fnv(&c.input))
}

pub struct Run<'a> {
    pub cat: &'a Catalog,
    pub cfg: &'a Config,
    pub stats: &'a mut Stats,
    pub violations: Vec<Violation>,
    pub trace: Vec<String>,
    pub run_seed: u64,
    pub unordered_run: bool,
}

impl<'a> Run<'a> {
    fn submit(&mut self, case: Case, nontrivial: bool) {
        if case.prop != self.cfg.focus {
            return;
        }
        let ev = eval(self.cat, &case);
        self.stats.cases += 1;
        self.stats.ticks += ev.meter.ticks;
        self.stats.count(&format!("outcome.{}", ev.outcome));
        self.stats.count(&format!("clause.{}", case.clause));
        if case.fault_kind != "none" {
            self.stats.count(&format!("fault_fired.{}", case.fault_kind));
        }
        if !case.input.is_empty() {
            let ratio = (ev.meter.mem.peak as u64 * 100) / case.input.len() as u64;
            if ratio > self.stats.max_peak_ratio_x100 {
                self.stats.max_peak_ratio_x100 = ratio;
            }
        }
        if ev.meter.max_region_depth >= 2 {
            self.stats.count("probe.nested_region_depth_ge_2");
        }
        let ch = case_hash(&case, ev.outcome);
        if !self.unordered_run {
            self.stats.note(ch);
            self.stats.note(ev.meter.ticks);
        }
        if nontrivial {
            self.stats.distinct.insert(ch);
        }
        self.stats
            .tuples
            .insert(format!("{}|{}|{}|{}", case.read_as, case.fault_kind, case.clause, ev.outcome));
        if self.stats.samples.len() < 5 && nontrivial && case.input.len() < 80 {
            let mut j = case.to_json();
            j["outcome"] = json!(ev.outcome);
            self.stats.sample(j);
        }
        if let Some(f) = ev.finding {
            self.violations.push(Violation {
                case,
                finding: f,
                run_seed: self.run_seed,
                trace: self.trace.clone(),
            });
        }
    }
}

fn pick_entries<'a>(cat: &'a Catalog, rng: &mut Rng, n: usize) -> Vec<usize> {
    // half built-in type expressions (and hand-written declarations), half declarations of the
    // generated evolution families
    (0..n)
        .map(|_| {
            if rng.chance(1, 2) || cat.entries.len() == cat.builtins {
                rng.usize_below(cat.builtins)
            } else {
                cat.builtins + rng.usize_below(cat.entries.len() - cat.builtins)
            }
        })
        .collect()
}

fn encode(e: &Entry, v: &Val) -> Option<Vec<u8>> {
    let f = e.encode;
    match contain(u64::MAX, || f(v)).0 {
        crate::exec::Outcome::Ok(b) => Some(b),
        _ => None,
    }
}

pub fn run(cat: &Catalog, cfg: &Config, stats: &mut Stats, run_seed: u64) -> Vec<Violation> {
    let root = Rng::new(run_seed);
    let mut sw = root.derive("swarm");
    let mut wl = root.derive("workload");
    let mut fl = root.derive("faults");
    let mut sc = root.derive("schedule");

    let mut run = Run { cat, cfg, stats, violations: vec![], trace: vec![], run_seed, unordered_run: false };
    run.stats.runs += 1;

    // ---- swarm configuration -----------------------------------------------------------------
    let ntypes = 1 + sw.usize_below(5);
    let types = pick_entries(cat, &mut sw, ntypes);
    let size = 1 + sw.usize_below(24);
    let nrec = 2 + sw.usize_below(9);
    let fault_free = sw.chance(1, 8);
    let mut kinds: Vec<FaultKind> = ALL_KINDS.iter().copied().filter(|_| sw.chance(1, 2)).collect();
    if kinds.is_empty() {
        kinds.push(*sw.pick(ALL_KINDS));
    }
    let nfaults = if fault_free { 0 } else { 1 + sw.usize_below(3) };
    let confuse = sw.chance(1, 3);
    let peer_writers = sw.chance(1, 2);
    run.trace.push(format!(
        "run_seed={run_seed} swarm: types={:?} size={size} records={nrec} fault_free={fault_free} kinds={:?} faults={nfaults} type_confusion={confuse}",
        types.iter().map(|i| cat.entries[*i].name).collect::<Vec<_>>(),
        kinds.iter().map(|k| k.name()).collect::<Vec<_>>()
    ));

    // ---- workload: writes and syncs --------------------------------------------------------------
    let mut gen = Gen::new(&cat.reg, size);
    if cfg.unordered && sw.chance(1, 8) {
        gen.max_hash_elems = 6;
        run.unordered_run = true;
        run.stats.count("probe.unordered_run_multi_element_hash_containers");
        run.trace.push("hash containers with several elements (iteration order is per process)".into());
    }
    let mut bgen = Gen::new(&cat.reg, size);
    bgen.boundary = true;
    let mut records: Vec<Record> = Vec::new();
    let mut synced = 0usize;
    for _ in 0..nrec {
        run.stats.events += 1;
        let ei = *sc.pick(&types);
        let e = &cat.entries[ei];
        let boundary = peer_writers && sc.chance(1, 12);
        let val = if boundary { bgen.val(&e.ty, &mut wl) } else { gen.val(&e.ty, &mut wl) };
        // one writer in four is the reference peer: a conforming writer that is not this library
        // (unknown-length sequences, over-long varints)
        let peer = boundary || (peer_writers && sc.chance(1, 4));
        let encoded = if peer {
            run.stats.count("writer.reference_peer");
            Some(model::enc::ref_encode(&cat.reg, &e.ty, &val, model::enc::Forms::mixed(wl.derive("forms"))))
        } else {
            run.stats.count("writer.real");
            encode(e, &val)
        };
        let Some(bytes) = encoded else {
            run.stats.count("encode_failed");
            run.trace.push(format!("write {} -> encode failed (skipped)", e.name));
            continue;
        };
        if bytes.len() > cfg.max_buf {
            continue;
        }
        // framing elements of the record as the format defines them (parse of the actual bytes)
        let marks = match ref_decode(&cat.reg, &e.ty, &bytes) {
            Ok(d) => d.marks,
            Err(_) => ref_marks(&cat.reg, &e.ty, &bytes),
        };
        run.trace.push(format!("write #{} {} {} bytes{}", records.len(), e.name, bytes.len(), if peer { " (reference peer)" } else { "" }));
        records.push(Record {
            entry: ei,
            val,
            stored: bytes.clone(),
            bytes,
            marks,
            durable: false,
            // boundary values are judged by the total / no-invention clauses only
            damaged: if boundary {
                run.stats.count("fault_configured.P-boundary");
                Some((FaultKind::Boundary, "the reference peer wrote parts at the edge of their type".into()))
            } else {
                None
            },
        });
        if sc.chance(1, 3) {
            run.stats.events += 1;
            synced = records.len();
            run.trace.push("sync".into());
        }
    }
    if records.is_empty() {
        return run.violations;
    }
    if sc.chance(2, 3) {
        synced = records.len();
        run.trace.push("sync".into());
    }
    for (i, r) in records.iter_mut().enumerate() {
        r.durable = i < synced;
    }

    // ---- crash: fault plan -----------------------------------------------------------------------
    run.stats.events += 1;
    run.trace.push(format!("crash: {} of {} records durable", synced, records.len()));
    // the volatile tail is lost; its first record may survive as a torn prefix
    let mut torn: Option<Record> = None;
    if synced < records.len() {
        let mut t = records.remove(synced);
        records.truncate(synced);
        if !fault_free && !t.bytes.is_empty() {
            let k = fl.usize_below(t.bytes.len());
            t.stored.truncate(k);
            t.damaged = Some((FaultKind::Cut, format!("torn write: first {k} of {} bytes", t.bytes.len())));
            run.stats.count("fault_configured.F-cut");
            torn = Some(t);
        }
    }
    for _ in 0..nfaults {
        if records.is_empty() {
            break;
        }
        let kind = *fl.pick(&kinds);
        run.stats.count(&format!("fault_configured.{}", kind.name()));
        match kind {
            FaultKind::Stale | FaultKind::Garbage | FaultKind::Cut => {} // segment level, below
            _ => {
                let i = fl.usize_below(records.len());
                if records[i].damaged.is_some() {
                    continue;
                }
                let marks = records[i].marks.clone();
                let mut b = records[i].stored.clone();
                if let Some(a) = faults::apply(kind, &mut b, &marks, &mut fl) {
                    run.trace.push(format!("fault {} on record #{i}: {}", kind.name(), a.detail));
                    records[i].stored = b;
                    records[i].damaged = Some((kind, a.detail));
                }
            }
        }
    }
    // what follows the last durable record: nothing, a torn record, stale bytes
    let mut tail: Vec<u8> = Vec::new();
    let mut tail_desc = "nothing".to_string();
    if let Some(t) = &torn {
        tail = t.stored.clone();
        tail_desc = format!("torn record of {} bytes", tail.len());
    } else if !fault_free && kinds.contains(&FaultKind::Stale) {
        run.stats.count("fault_configured.F-stale");
        match if records.is_empty() { 0 } else { fl.below(3) } {
            0 => tail = faults::garbage(&mut fl, 64),
            1 => {
                let r = fl.pick(&records);
                tail = r.bytes.clone();
            }
            _ => {
                let r = fl.pick(&records);
                let k = fl.usize_below(r.bytes.len() + 1);
                tail = r.bytes[..k].to_vec();
            }
        }
        tail_desc = format!("{} stale bytes of a reused segment", tail.len());
    }
    run.trace.push(format!("tail after last durable record: {tail_desc}"));

    // ---- the segment as the recovering node sees it ----------------------------------------------
    let mut seg: Vec<u8> = Vec::new();
    let mut offs = Vec::new();
    for r in &records {
        offs.push(seg.len());
        seg.extend_from_slice(&r.stored);
    }
    let tail_off = seg.len();
    seg.extend_from_slice(&tail);

    // ---- recovery scan -----------------------------------------------------------------------------
    run.stats.events += 1;
    run.trace.push(format!("recover: scan {} records, segment of {} bytes", records.len(), seg.len()));
    for (i, r) in records.iter().enumerate() {
        let e = &cat.entries[r.entry];
        let input = seg[offs[i]..].to_vec();
        let has_suffix = input.len() > r.stored.len();
        match &r.damaged {
            None => {
                let mut c = Case::new("C07", "self-delimiting", e.name, input.clone());
                c.enc_len = r.bytes.len();
                c.expected = Some(format!("{:?}", r.val));
                c.fault = format!("intact record #{i} followed by {} bytes", input.len() - r.bytes.len());
                c.fault_kind = if has_suffix { "suffix".into() } else { "none".into() };
                run.submit(c, has_suffix);
                // an intact record is also a valid input for the other oracles (fault-free
                // configuration: the relaxation "Err is fine" must not hide an ordinary bug)
                let mut c = Case::new("C06", "no-invention", e.name, input.clone());
                c.fault = format!("intact record #{i}");
                run.submit(c, false);
                let mut c = Case::new("C05", "total", e.name, input.clone());
                c.fault = format!("intact record #{i}");
                run.submit(c, false);
            }
            Some((kind, detail)) => {
                for (prop, clause) in [("C05", "total"), ("C06", "no-invention")] {
                    let mut c = Case::new(prop, clause, e.name, input.clone());
                    c.fault = format!("record #{i}: {detail}");
                    c.fault_kind = kind.name().into();
                    run.submit(c, true);
                }
            }
        }
        if confuse {
            // a mis-indexed log hands the record to the decoder of another type
            let other = &cat.entries[*sc.pick(&types)];
            if other.name != e.name {
                for (prop, clause) in [("C05", "total"), ("C06", "no-invention")] {
                    let mut c = Case::new(prop, clause, other.name, input.clone());
                    c.fault = format!("record #{i} of type {} read as {}", e.name, other.name);
                    c.fault_kind = "type-confusion".into();
                    run.submit(c, true);
                }
            }
        }
    }
    // batch scan: one context for a run of intact records
    {
        let mut start = 0;
        while start < records.len() {
            if records[start].damaged.is_some() {
                start += 1;
                continue;
            }
            let mut end = start;
            while end < records.len() && records[end].damaged.is_none() {
                end += 1;
            }
            if end - start >= 2 {
                // values written one after another into one stream ...
                let vals: Vec<(usize, Val)> =
                    records[start..end].iter().map(|r| (r.entry, r.val.clone())).collect();
                let written = contain(u64::MAX, || {
                    let mut ctx = desert::SerializationContext::new(Vec::new());
                    for (ei, v) in &vals {
                        (cat.entries[*ei].encode_in)(v, &mut ctx)?;
                    }
                    Ok(ctx.into_output())
                })
                .0;
                if let crate::exec::Outcome::Ok(mut input) = written {
                    // ... are read back one after another through one context, whatever follows
                    let enc_len = input.len();
                    input.extend_from_slice(&seg[offs[end - 1] + records[end - 1].stored.len()..]);
                    let mut c = Case::new("C07", "batch", cat.entries[records[start].entry].name, input);
                    c.enc_len = enc_len;
                    c.batch = records[start..end]
                        .iter()
                        .map(|r| (cat.entries[r.entry].name.to_string(), format!("ok:{:?}", r.val)))
                        .collect();
                    c.fault = format!("records #{start}..#{end} written into one stream and read through one context");
                    c.fault_kind = "suffix".into();
                    run.submit(c, true);
                }
            }
            start = end.max(start + 1);
        }
    }
    // the torn record
    if let Some(t) = &torn {
        let e = &cat.entries[t.entry];
        let input = seg[tail_off..].to_vec();
        let mut c = Case::new("C08", "truncation", e.name, input.clone());
        c.fault = t.damaged.as_ref().unwrap().1.clone();
        c.fault_kind = "F-cut".into();
        run.submit(c, true);
        for (prop, clause) in [("C05", "total"), ("C06", "no-invention")] {
            let mut c = Case::new(prop, clause, e.name, input.clone());
            c.fault = t.damaged.as_ref().unwrap().1.clone();
            c.fault_kind = "F-cut".into();
            run.submit(c, true);
        }
    }
    // every crash point of the last write
    if cfg.enumerate_cuts && cfg.focus == "C08" {
        let r = torn.as_ref().or(records.last());
        if let Some(r) = r {
            let e = &cat.entries[r.entry];
            if r.bytes.is_empty() {
                run.stats.count("empty_encoding_skipped");
            }
            let n = r.bytes.len();
            let cuts: Vec<usize> = if n <= 4096 {
                (0..n).collect()
            } else {
                let mut c: Vec<usize> = r.marks.iter().flat_map(|m| [m.off, m.off + m.len]).filter(|k| *k < n).collect();
                c.sort();
                c.dedup();
                c.truncate(256);
                c
            };
            for k in cuts {
                let mut c = Case::new("C08", "truncation", e.name, r.bytes[..k].to_vec());
                c.fault = format!("crash after {k} of {n} bytes");
                c.fault_kind = "F-cut".into();
                run.submit(c, true);
            }
        }
    }
    // a foreign / uninitialised sector
    if !fault_free && kinds.contains(&FaultKind::Garbage) {
        run.stats.count("fault_configured.F-garbage");
        let e = &cat.entries[*sc.pick(&types)];
        let max = if e.recursive { 256 } else { 512 };
        let g = faults::garbage(&mut fl, max);
        for (prop, clause) in [("C05", "total"), ("C06", "no-invention")] {
            let mut c = Case::new(prop, clause, e.name, g.clone());
            c.fault = "garbage sector".into();
            c.fault_kind = "F-garbage".into();
            run.submit(c, true);
        }
    }
    run.violations
}
