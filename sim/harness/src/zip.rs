//! Engine `zip` (C16): a node writes compressed frames followed by sibling data through every
//! sink; a reader reads them through every source. Faults on the stored frame: every cut point,
//! bit flips, rewrites of the two header varints. The allocator seam bounds what a damaged frame
//! may make the reader reserve.

use crate::case::{Case, Evaluated, Finding, Violation};
use crate::catalog::{PagedSink, RecordingSink};
use crate::exec::{contain, Meter, Outcome};
use crate::stats::Stats;
use bytes::BytesMut;
use desert::{BinaryInput, BinaryOutput, DeserializationContext, OwnedInput, SliceInput};
use flate2::Compression;
use model::rng::{fnv, mix, Rng};
use serde_json::json;
use std::io::Read;

pub struct Config {
    pub focus: String,
    pub max_len: usize,
    /// one frame in twelve is large (up to this many bytes): incompressible content then spans
    /// several stored blocks of the deflate stream
    pub big_len: usize,
}

fn var_u32(buf: &[u8]) -> Option<(u32, usize)> {
    let mut r: u32 = 0;
    for i in 0..5 {
        let b = *buf.get(i)?;
        r |= ((b & 0x7F) as u32).wrapping_shl(7 * i as u32);
        if i == 4 || b & 0x80 == 0 {
            return Some((r, i + 1));
        }
    }
    None
}

fn write_frame<O: BinaryOutput>(mut o: O, d: &[u8], level: u32, sibling: &[u8]) -> desert::Result<O> {
    o.write_compressed(d, Compression::new(level))?;
    o.write_bytes(sibling);
    Ok(o)
}

/// bytes an independent inflater produces from `payload` before it stops (end of stream or error)
fn independent_inflate(payload: &[u8]) -> (Vec<u8>, bool) {
    let mut dec = flate2::read::DeflateDecoder::new(payload);
    let mut out = Vec::new();
    let mut chunk = [0u8; 4096];
    loop {
        match dec.read(&mut chunk) {
            Ok(0) => return (out, true),
            Ok(n) => out.extend_from_slice(&chunk[..n]),
            Err(_) => return (out, false),
        }
        if out.len() > (64 << 20) {
            return (out, false);
        }
    }
}

fn read_through<I: BinaryInput>(mut inp: I, nsib: usize) -> desert::Result<(Vec<u8>, Vec<u8>, bool)> {
    let d = inp.read_compressed()?;
    let sib = inp.read_bytes(nsib)?.to_vec();
    let at_end = inp.read_u8().is_err();
    Ok((d, sib, at_end))
}

/// clause `zip-roundtrip`: input = content d; expected = "<level>:<sibling hex>"
pub fn eval_roundtrip(case: &Case) -> Evaluated {
    let spec = case.expected.as_deref().unwrap();
    let (lvl, sib) = spec.split_once(':').unwrap();
    let level: u32 = lvl.parse().unwrap();
    let sibling = model::unhex(sib);
    let d = &case.input;
    let (out, meter) = contain(u64::MAX, || {
        let a = write_frame(Vec::new(), d, level, &sibling)?;
        let b = write_frame(BytesMut::new(), d, level, &sibling)?.to_vec();
        let c = write_frame(RecordingSink::default(), d, level, &sibling)?.data;
        let p = write_frame(PagedSink::new(5), d, level, &sibling)?.contents();
        let s = write_frame(desert::SizeCalculator::new(), d, level, &sibling)?.size();
        // through a serialization context, directly and while a chunk buffer is pushed (the way a
        // field of an evolved record is written)
        let x = write_frame(desert::SerializationContext::new(Vec::new()), d, level, &sibling)?.into_output();
        let mut ctx = desert::SerializationContext::new(Vec::new());
        ctx.push_buffer(Vec::new());
        let mut ctx = write_frame(ctx, d, level, &sibling)?;
        let y = ctx.pop_buffer();
        let leaked = ctx.into_output();
        if x != a || y != a || !leaked.is_empty() {
            return Ok((a, vec![], c, p, s));
        }
        Ok((a, b, c, p, s))
    });
    let mut finding = None;
    match &out {
        Outcome::Ok((a, b, c, p, s)) => {
            if a != b || a != c || a != p || *s != a.len() {
                finding = Some(Finding { class: "sinks".into(), detail: "the sinks disagree on a compressed frame".into() });
            } else {
                // frame == varint(|d|) ++ varint(|z|) ++ z, z inflates to d
                let framed = (|| {
                    let (ulen, n1) = var_u32(a)?;
                    let (clen, n2) = var_u32(&a[n1..])?;
                    let start = n1 + n2;
                    let end = start.checked_add(clen as usize)?;
                    if end + sibling.len() != a.len() {
                        return Some(format!("frame header says {clen} compressed bytes but {} follow the header", a.len() - start - sibling.len()));
                    }
                    if ulen as usize != d.len() {
                        return Some(format!("frame header says {ulen} uncompressed bytes, content has {}", d.len()));
                    }
                    let (z, clean) = independent_inflate(&a[start..end]);
                    if !clean || z != *d {
                        return Some("the payload does not inflate to the content".to_string());
                    }
                    if a[end..] != sibling[..] {
                        return Some("data after the frame differs".to_string());
                    }
                    None
                })();
                match framed {
                    Some(m) => finding = Some(Finding { class: "frame".into(), detail: m }),
                    None => {
                        // read back through every source
                        for (name, r) in [
                            ("SliceInput", contain(u64::MAX, || read_through(SliceInput::new(a), sibling.len())).0),
                            ("OwnedInput", contain(u64::MAX, || read_through(OwnedInput::new(a.clone()), sibling.len())).0),
                            ("DeserializationContext", contain(u64::MAX, || read_through(DeserializationContext::new(a), sibling.len())).0),
                        ] {
                            match r {
                                Outcome::Ok((dd, ss, at_end)) => {
                                    if dd != *d {
                                        finding = Some(Finding { class: "content".into(), detail: format!("{name}: content read back differs ({} vs {} bytes)", dd.len(), d.len()) });
                                    } else if ss != sibling || !at_end {
                                        finding = Some(Finding { class: "consumed".into(), detail: format!("{name}: data after the frame is disturbed") });
                                    }
                                }
                                Outcome::Err(m) => finding = Some(Finding { class: "rejected".into(), detail: format!("{name}: {m}") }),
                                Outcome::Panic(m) => finding = Some(Finding { class: "panic".into(), detail: format!("{name}: {m}") }),
                                Outcome::Hang => finding = Some(Finding { class: "hang".into(), detail: name.into() }),
                            }
                            if finding.is_some() {
                                break;
                            }
                        }
                    }
                }
            }
        }
        Outcome::Err(m) => finding = Some(Finding { class: "rejected".into(), detail: format!("write_compressed failed: {m}") }),
        Outcome::Panic(m) => finding = Some(Finding { class: "panic".into(), detail: m.clone() }),
        Outcome::Hang => {}
    }
    Evaluated { finding, outcome: out.class(), meter }
}

/// clause `zip-truncation`: every source must reject the cut frame.
/// clause `zip-damaged`: Ok or Err, no panic, no reservation out of proportion.
pub fn eval_damaged(case: &Case) -> Evaluated {
    let a = &case.input;
    let mut finding = None;
    let mut last = "ok";
    let mut meter = Meter::default();
    // bytes actually produced, judged by an independent inflater on the payload the header delimits
    let produced = (|| {
        let (_, n1) = var_u32(a)?;
        let (clen, n2) = var_u32(&a[n1..])?;
        let start = n1 + n2;
        let end = start.checked_add(clen as usize)?;
        if end > a.len() {
            return None;
        }
        Some(independent_inflate(&a[start..end]).0.len())
    })()
    .unwrap_or(0);
    let budget = (64usize << 10).max(2 * produced);
    for name in ["SliceInput", "OwnedInput", "DeserializationContext"] {
        let (r, m) = match name {
            "SliceInput" => contain(1 << 24, || SliceInput::new(a).read_compressed()),
            "OwnedInput" => contain(1 << 24, || OwnedInput::new(a.clone()).read_compressed()),
            _ => contain(1 << 24, || DeserializationContext::new(a).read_compressed()),
        };
        meter = m;
        last = r.class();
        match (&r, case.clause.as_str()) {
            (Outcome::Panic(m), _) => finding = Some(Finding { class: "panic".into(), detail: format!("{name}: {m}") }),
            (Outcome::Hang, _) => finding = Some(Finding { class: "hang".into(), detail: name.into() }),
            (Outcome::Ok(d), "zip-truncation") => {
                finding = Some(Finding { class: "accepted".into(), detail: format!("{name}: truncated frame of {} bytes read as {} bytes of content", a.len(), d.len()) })
            }
            _ => {}
        }
        // OwnedInput's own copy of the input is not part of the call under test
        let largest = m.mem.largest;
        let own = if name == "OwnedInput" { a.len() } else { 0 };
        if finding.is_none() && largest > budget && largest != own {
            finding = Some(Finding {
                class: "alloc".into(),
                detail: format!(
                    "{name}: a single allocation request of {largest} bytes for a frame of {} bytes that decompresses to {produced} bytes (limit {budget})",
                    a.len()
                ),
            });
        }
        if finding.is_some() {
            break;
        }
    }
    Evaluated { finding, outcome: last, meter }
}

fn content(rng: &mut Rng, max: usize) -> (Vec<u8>, &'static str) {
    if rng.chance(1, 8) {
        // incompressible content is stored with 5 bytes of overhead: these sizes put the compressed
        // length on the width boundaries of its varint (127/128/129, 16383/16384/16385)
        let n = *rng.pick(&[121usize, 122, 123, 124, 125, 16377, 16378, 16379, 16380]);
        if n <= max.max(200) {
            return (rng.bytes(n), "boundary");
        }
    }
    if max >= (128 << 10) && rng.chance(1, 10) {
        // megabytes of one byte value or of a short pattern: deflate's best case (about 1030:1)
        let n = (2_200_000 + rng.usize_below(2_400_000)).min(max.max(4_600_000));
        let p = if rng.chance(1, 2) { vec![rng.next_u64() as u8] } else { b"ab".to_vec() };
        return ((0..n).map(|i| p[i % p.len()]).collect(), "huge-run");
    }
    let n = match rng.below(6) {
        0 => 0,
        1 => 1,
        2 => rng.usize_below(64),
        _ => rng.usize_below(max + 1),
    };
    match rng.below(5) {
        0 => (rng.bytes(n), "random"),
        1 => (vec![rng.next_u64() as u8; n], "constant"),
        2 => {
            let pn = 1 + rng.usize_below(7);
            let p = rng.bytes(pn);
            ((0..n).map(|i| p[i % p.len()]).collect(), "periodic")
        }
        3 => {
            let words = ["the ", "quick ", "brown ", "fox ", "desert ", "chunk ", "\n"];
            let mut s = String::new();
            while s.len() < n {
                s.push_str(words[rng.usize_below(words.len())]);
            }
            s.truncate(n);
            (s.into_bytes(), "text")
        }
        _ => {
            let mut v = rng.bytes(n);
            for x in v.iter_mut() {
                *x &= 0x0f;
            }
            (v, "low-entropy")
        }
    }
}

fn case_hash(c: &Case) -> u64 {
    mix(mix(fnv(c.clause.as_bytes()), fnv(&c.input)), fnv(c.expected.as_deref().unwrap_or("").as_bytes()))
}

pub fn run(cfg: &Config, stats: &mut Stats, run_seed: u64, cat: &crate::catalog::Catalog) -> Vec<Violation> {
    let root = Rng::new(run_seed);
    let mut wl = root.derive("workload");
    let mut fl = root.derive("faults");
    let mut sw = root.derive("swarm");
    stats.runs += 1;
    let mut violations = Vec::new();
    let mut trace = vec![format!("run_seed={run_seed}")];
    let mut submit = |case: Case, stats: &mut Stats, trace: &Vec<String>, nontrivial: bool| {
        let ev = crate::case::eval(cat, &case);
        stats.cases += 1;
        stats.count(&format!("clause.{}", case.clause));
        stats.count(&format!("outcome.{}", ev.outcome));
        if case.fault_kind != "none" {
            stats.count(&format!("fault_fired.{}", case.fault_kind));
        }
        stats.note(case_hash(&case));
        stats.note(model::rng::fnv(ev.outcome.as_bytes()));
        if nontrivial {
            stats.distinct.insert(case_hash(&case));
        }
        stats.tuples.insert(format!("{}|{}|{}", case.clause, case.fault_kind, ev.outcome));
        if stats.samples.len() < 5 && case.input.len() < 48 {
            let mut j = case.to_json();
            j["outcome"] = json!(ev.outcome);
            stats.sample(j);
        }
        if let Some(f) = ev.finding {
            violations.push(Violation { case, finding: f, run_seed, trace: trace.clone() });
        }
    };
    let nframes = 1 + sw.usize_below(3);
    for _ in 0..nframes {
        stats.events += 1;
        let big = wl.chance(1, 12);
        if big {
            stats.count("probe.large_frame");
        }
        let (d, kind) = content(&mut wl, if big { cfg.big_len } else { cfg.max_len });
        let level = wl.below(10) as u32;
        let ns = wl.usize_below(9);
        let sibling = wl.bytes(ns);
        trace.push(format!("write frame: {} bytes of {kind} content at level {level}, {} sibling bytes", d.len(), sibling.len()));
        stats.count(&format!("content.{kind}"));
        stats.count(&format!("level.{level}"));
        let mut c = Case::new("C16", "zip-roundtrip", "-", d.clone());
        c.expected = Some(format!("{level}:{}", model::hex(&sibling)));
        c.fault = format!("{kind} content, level {level}");
        submit(c, stats, &trace, true);

        // the stored frame
        let frame = match contain(u64::MAX, || write_frame(Vec::new(), &d, level, &[])).0 {
            Outcome::Ok(f) => f,
            _ => continue,
        };
        // crash points: every cut of small frames, sampled cuts of large ones
        stats.events += 1;
        let cuts: Vec<usize> = if frame.len() <= 512 {
            (0..frame.len()).collect()
        } else {
            let mut v: Vec<usize> = (0..16).collect();
            for _ in 0..48 {
                v.push(fl.usize_below(frame.len()));
            }
            v.push(frame.len() - 1);
            v
        };
        stats.add("fault_configured.F-cut", cuts.len() as u64);
        for k in cuts {
            let mut c = Case::new("C16", "zip-truncation", "-", frame[..k].to_vec());
            c.fault = format!("crash after {k} of {} frame bytes", frame.len());
            c.fault_kind = "F-cut".into();
            submit(c, stats, &trace, true);
        }
        // bit rot and header rewrites
        for _ in 0..(1 + fl.usize_below(4)) {
            let mut f = frame.clone();
            if f.is_empty() {
                continue;
            }
            let (kindname, detail) = match fl.below(3) {
                0 => {
                    stats.count("fault_configured.F-flip");
                    let n = 1 + fl.usize_below(3);
                    let mut d = Vec::new();
                    for _ in 0..n {
                        let i = fl.usize_below(f.len());
                        let b = fl.below(8);
                        f[i] ^= 1 << b;
                        d.push(format!("{i}.{b}"));
                    }
                    ("F-flip", format!("bit flips {}", d.join(",")))
                }
                1 => {
                    // rewrite the uncompressed length
                    stats.count("fault_configured.F-frame");
                    let (_, n1) = var_u32(&f).unwrap();
                    let nv: u32 = *fl.pick(&[0u32, 1, u32::MAX, 1 << 31, 1 << 24, 0x0fff_ffff]);
                    let mut enc = Vec::new();
                    enc.write_var_u32(nv);
                    f.splice(0..n1, enc);
                    ("F-frame", format!("uncompressed length rewritten to {nv}"))
                }
                _ => {
                    stats.count("fault_configured.F-frame");
                    let (_, n1) = var_u32(&f).unwrap();
                    let (old, n2) = var_u32(&f[n1..]).unwrap();
                    let nv: u32 = match fl.below(5) {
                        0 => 0,
                        1 => old.wrapping_add(1),
                        2 => old.saturating_sub(1),
                        3 => u32::MAX,
                        _ => old / 2,
                    };
                    let mut enc = Vec::new();
                    enc.write_var_u32(nv);
                    f.splice(n1..n1 + n2, enc);
                    ("F-frame", format!("compressed length rewritten {old} -> {nv}"))
                }
            };
            if f == frame {
                continue;
            }
            trace.push(format!("fault {kindname} on the stored frame: {detail}"));
            let mut c = Case::new("C16", "zip-damaged", "-", f);
            c.fault = detail;
            c.fault_kind = kindname.into();
            submit(c, stats, &trace, true);
        }
        // a foreign sector read as a frame
        if fl.chance(1, 3) {
            stats.count("fault_configured.F-garbage");
            let g = model::faults::garbage(&mut fl, 24);
            let mut c = Case::new("C16", "zip-damaged", "-", g);
            c.fault = "garbage sector".into();
            c.fault_kind = "F-garbage".into();
            submit(c, stats, &trace, true);
        }
    }
    violations
}
