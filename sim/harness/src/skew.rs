//! Engine `skew`: nodes pinned to releases write records of evolving families into a shared
//! durable op-log; upgrade / rollback / crash events change which definition reads what was
//! written earlier. Serves C03 (every writer/reader pair gives the documented outcome), C12
//! (containers replaced between releases, unknown-length form from a streaming writer and from the
//! reference peer), C13 (constructor identity across enum versions, unknown and transient indices)
//! and the evolved-record clauses of C07 and C08.

use crate::case::{eval, Case, Violation};
use crate::catalog::Catalog;
use crate::exec::{contain, Outcome};
use crate::stats::Stats;
use model::dec::{ref_decode, Role};
use model::enc::{ref_encode, Forms};
use model::evo::{Evo, ExpErr};
use model::faults;
use model::gen::Gen;
use model::rng::{fnv, mix, Rng};
use model::ty::*;
use serde_json::json;

pub struct Config {
    pub focus: String,
    pub size_cap: usize,
    pub event_cap: usize,
    /// C12: one run in eight lets the real encoder write hash containers with several elements
    /// (their byte order differs from process to process: such runs stay out of the event-log digest)
    pub unordered: bool,
}

struct Node {
    release: usize,
    /// writes through the reference peer encoder (unknown-length sequences, over-long varints):
    /// a conforming writer that is not this library
    peer: bool,
}

#[derive(Clone)]
struct Item {
    /// catalogue entry the item was written as
    entry: String,
    ty: Ty,
    val: Val,
    /// family index when the item is a family record
    fam: Option<usize>,
}

struct Stream {
    items: Vec<Item>,
    bytes: Vec<u8>,
    writer_release: usize,
    peer: bool,
    /// byte range of the (first) family record inside `bytes`
    fam_range: (usize, usize),
}

fn steps_of<'a>(reg: &'a Registry, name: &str, val: &Val) -> &'a [Step] {
    match (reg.get(name), val) {
        (AdtDef::Record(d), _) => &d.steps,
        (AdtDef::Enum(e), Val::Enum(decl, _)) => &e.ctors[*decl].record.steps,
        _ => &[],
    }
}

fn has_removal(steps: &[Step]) -> bool {
    steps.iter().any(|s| matches!(s, Step::Removed(_) | Step::MadeTransient(_)))
}

fn reader_steps<'a>(reg: &'a Registry, name: &str, wname: &str, val: &Val) -> &'a [Step] {
    match (reg.get(name), reg.get(wname), val) {
        (AdtDef::Record(d), _, _) => &d.steps,
        (AdtDef::Enum(e), AdtDef::Enum(we), Val::Enum(decl, _)) => {
            let cname = &we.ctors[*decl].name;
            match e.ctors.iter().find(|c| c.name == *cname) {
                Some(c) => &c.record.steps,
                None => &[],
            }
        }
        _ => &[],
    }
}

fn expectation(r: &Result<Val, ExpErr>) -> String {
    match r {
        Ok(v) => format!("ok:{v:?}"),
        Err(ExpErr::FieldRemoved(n)) => format!("err:FieldRemovedInSerializedVersion({n:?})"),
        Err(ExpErr::SerializedAsNone(n)) => format!("err:NonOptionalFieldSerializedAsNone({n:?})"),
        Err(_) => "err".to_string(),
    }
}

fn case_hash(c: &Case, outcome: &str) -> u64 {
    let mut h = fnv(c.read_as.as_bytes());
    for (n, e) in &c.batch {
        h = mix(h, fnv(n.as_bytes()));
        h = mix(h, fnv(e.as_bytes()));
    }
    h = mix(h, fnv(c.clause.as_bytes()));
    h = mix(h, fnv(outcome.as_bytes()));
    mix(h, fnv(&c.input))
}

struct Run<'a> {
    cat: &'a Catalog,
    cfg: &'a Config,
    stats: &'a mut Stats,
    violations: Vec<Violation>,
    trace: Vec<String>,
    run_seed: u64,
    unordered_run: bool,
}

impl Run<'_> {
    fn submit(&mut self, case: Case) {
        let ev = eval(self.cat, &case);
        self.stats.cases += 1;
        self.stats.ticks += ev.meter.ticks;
        self.stats.count(&format!("outcome.{}", ev.outcome));
        self.stats.count(&format!("clause.{}", case.clause));
        if case.fault_kind != "none" {
            self.stats.count(&format!("fault_fired.{}", case.fault_kind));
        }
        if ev.meter.max_region_depth >= 2 {
            self.stats.count("probe.nested_region_depth_ge_2");
        }
        for (k, n) in crate::exec::take_probes() {
            self.stats.add(&format!("probe.{k}"), n);
        }
        let ch = case_hash(&case, ev.outcome);
        if !self.unordered_run {
            self.stats.note(ch);
            self.stats.note(ev.meter.ticks);
        }
        self.stats.distinct.insert(ch);
        self.stats.tuples.insert(format!("{}|{}|{}|{}", case.read_as, case.fault_kind, case.clause, ev.outcome));
        if self.stats.samples.len() < 5 && case.input.len() < 100 && case.fault.contains("->") {
            let mut j = case.to_json();
            j["outcome"] = json!(ev.outcome);
            self.stats.sample(j);
        }
        if let Some(f) = ev.finding {
            self.violations.push(Violation { case, finding: f, run_seed: self.run_seed, trace: self.trace.clone() });
        }
    }
}

fn eligible(cat: &Catalog, focus: &str) -> Vec<usize> {
    cat.infos
        .iter()
        .enumerate()
        .filter(|(_, f)| match focus {
            "C12" => f.tags.contains(&"containers"),
            "C13" => f.kind == "enum",
            _ => true,
        })
        .map(|(i, _)| i)
        .collect()
}

pub fn run(cat: &Catalog, cfg: &Config, stats: &mut Stats, run_seed: u64) -> Vec<Violation> {
    let root = Rng::new(run_seed);
    let mut sw = root.derive("swarm");
    let mut wl = root.derive("workload");
    let mut fl = root.derive("faults");
    let mut sc = root.derive("schedule");
    let mut run = Run { cat, cfg, stats, violations: vec![], trace: vec![], run_seed, unordered_run: false };
    run.stats.runs += 1;
    let evo = Evo { reg: &cat.reg, fams: &cat.fams };
    let focus = cfg.focus.as_str();
    let releases = crate::families_gen::RELEASES;

    // ---- swarm ---------------------------------------------------------------------------------
    let pool = eligible(cat, focus);
    let nf = 1 + sw.usize_below(3);
    let fams: Vec<usize> = (0..nf).map(|_| *sw.pick(&pool)).collect();
    let size = (1 + sw.usize_below(24)).min(cfg.size_cap);
    let nnodes = 2 + sw.usize_below(3);
    let mut nodes: Vec<Node> = (0..nnodes)
        .map(|_| Node { release: sw.usize_below(releases), peer: sw.chance(1, 4) })
        .collect();
    let nevents = (6 + sw.usize_below(19)).min(cfg.event_cap);
    let embed_mix = sw.below(4); // 0: top level only, otherwise siblings / batches allowed
    let faulty = !sw.chance(1, 6);
    run.trace.push(format!(
        "run_seed={run_seed} swarm: families={:?} size={size} nodes={:?} events={nevents} embed_mix={embed_mix} faults={faulty}",
        fams.iter().map(|i| cat.infos[*i].name).collect::<Vec<_>>(),
        nodes.iter().map(|n| format!("r{}{}", n.release, if n.peer { "p" } else { "" })).collect::<Vec<_>>()
    ));
    let gen = Gen::new(&cat.reg, size);
    let mut log: Vec<Stream> = Vec::new();

    let read_stream = |run: &mut Run, s: &Stream, si: usize, r: usize, suffix: &[u8], kind: &str| {
        // script: every item as the reader at release r must see it
        let mut batch = Vec::new();
        let mut judge_from = 0;
        let mut check_rem = true;
        let mut desc = String::new();
        let mut first_name = String::new();
        let mut seen_fam = false;
        for it in &s.items {
            match it.fam {
                None if it.entry == "Dedup" && s.writer_release != r => {
                    check_rem = false;
                    break;
                }
                None => batch.push((it.entry.clone(), format!("ok:{:?}", it.val))),
                Some(fi) => {
                    let info = &cat.infos[fi];
                    let wname = &it.entry;
                    let rname = format!("{}_V{}", info.name, r);
                    let exp = evo.convert(&it.ty, &Ty::Adt(rname.clone()), &it.val);
                    let ws = steps_of(&cat.reg, wname, &it.val);
                    let rs = reader_steps(&cat.reg, &rname, wname, &it.val);
                    let leftover = ws.is_empty() && has_removal(rs);
                    let e = expectation(&exp);
                    run.stats.count(&format!(
                        "pair.{}",
                        if s.writer_release < r { "old_data_new_reader" } else if s.writer_release > r { "new_data_old_reader" } else { "same_release" }
                    ));
                    run.stats.count(&format!("expected.{}", e.split(':').next().unwrap_or("err").split('(').next().unwrap()));
                    if first_name.is_empty() {
                        first_name = rname.clone();
                        desc = format!("{} w={} -> r={}", info.name, s.writer_release, r);
                    }
                    let is_err = exp.is_err();
                    batch.push((rname, e));
                    if focus == "C07" && !seen_fam {
                        // C07 judges what follows the record, not the record's own value
                        judge_from = batch.len();
                    }
                    seen_fam = true;
                    if leftover {
                        // version-0 data carries no sizes: removed trailing fields cannot be skipped
                        // (DESIGN 9.1); nothing after this item is judged
                        check_rem = false;
                        run.stats.count("excluded.v0_removal_leftover");
                        break;
                    }
                    if is_err {
                        break;
                    }
                }
            }
        }
        if focus == "C07" && (!check_rem || batch.last().map(|b| b.1.starts_with("err")).unwrap_or(false)) {
            return; // nothing to judge for C07
        }
        let mut input = s.bytes.clone();
        input.extend_from_slice(suffix);
        let clause = "script";
        let mut c = Case::new(focus, clause, &first_name, input);
        c.enc_len = s.bytes.len();
        c.batch = batch;
        c.judge_from = judge_from;
        c.check_rem = check_rem;
        c.fault = format!("stream #{si} ({}{}) read at release {r}: {desc}", if s.peer { "reference peer, " } else { "" }, kind);
        c.fault_kind = if !suffix.is_empty() { "F-stale".into() } else if s.peer { "P-peer".into() } else { "P-ver".into() };
        run.submit(c);
    };

    // C13: a value of the 200-constructor enum (indices above 127 need a two-byte varint)
    if focus == "C13" && sw.chance(1, 3) {
        let e = cat.by_name(if sw.chance(1, 3) { "Priority" } else { "Big200" }).unwrap();
        let val = gen.val(&e.ty, &mut wl);
        if let (Outcome::Ok(bytes), Val::Enum(decl, _)) = (contain(u64::MAX, || (e.encode)(&val)).0, &val) {
            run.trace.push(format!("a node writes {} constructor {decl}", e.name));
            let mut c = Case::new("C13", "ctor-index", e.name, bytes.clone());
            c.expected = Some(decl.to_string());
            c.fault = format!("{} constructor {decl} -> written", e.name);
            run.submit(c);
            let mut c = Case::new("C13", "script", e.name, bytes);
            c.enc_len = c.input.len();
            c.batch = vec![(e.name.to_string(), format!("ok:{val:?}"))];
            c.fault = format!("{} constructor {decl} -> read back", e.name);
            run.submit(c);
        }
    }

    // C13: enum values inside a sequence - written at one release in the known-length form (Vec), in
    // the unknown-length form by the library itself (a streaming writer) or by the reference peer,
    // read as a vector at another release; an element whose constructor the reader does not know
    // (written by a newer release, or rewritten by a fault) fails the whole decode
    if focus == "C13" {
        for _ in 0..2 {
            let info = &cat.infos[*sw.pick(&pool)];
            let (w, r) = (sw.usize_below(releases), sw.usize_below(releases));
            let (wn, rn) = (format!("{}_V{w}", info.name), format!("{}_V{r}", info.name));
            let streamed = sw.chance(1, 2);
            let Some(w_e) = cat.by_name(&if streamed { format!("Streamed<{wn}>") } else { format!("Vec<{wn}>") }) else { continue };
            let Some(r_e) = cat.by_name(&format!("Vec<{rn}>")) else { continue };
            let val = gen.val(&w_e.ty, &mut wl);
            let elems = match &val {
                Val::Seq(xs) => xs.clone(),
                _ => continue,
            };
            // version-0 data of a constructor that later lost a field cannot be skipped (DESIGN 9.1)
            if elems.iter().any(|x| steps_of(&cat.reg, &wn, x).is_empty() && has_removal(reader_steps(&cat.reg, &rn, &wn, x))) {
                run.stats.count("excluded.v0_removal_leftover");
                continue;
            }
            let peer = !streamed && sw.chance(1, 2);
            let bytes = if peer {
                ref_encode(&cat.reg, &w_e.ty, &val, Forms::mixed(wl.derive("forms")))
            } else {
                match contain(u64::MAX, || (w_e.encode)(&val)).0 {
                    Outcome::Ok(b) => b,
                    _ => {
                        run.stats.count("encode_failed");
                        continue;
                    }
                }
            };
            let exp = evo.convert(&w_e.ty, &r_e.ty, &val);
            run.stats.count("probe.enum_in_sequence_case");
            if exp.is_err() {
                run.stats.count("probe.enum_in_sequence_unknown_to_reader");
            }
            let how = if streamed { "streamed (unknown-length form)" } else if peer { "written by the reference peer" } else { "known-length form" };
            run.trace.push(format!("a node at release {w} writes {} x {wn}, {how}; a node at release {r} reads them", elems.len()));
            let mut full = bytes.clone();
            full.push(0x5a);
            let mut c = Case::new("C13", "script", r_e.name, full);
            c.enc_len = c.input.len();
            c.batch = vec![(r_e.name.to_string(), expectation(&exp))];
            if exp.is_ok() {
                c.batch.push(("u8".to_string(), "ok:U(90)".to_string()));
            } else {
                c.check_rem = false;
            }
            c.fault = format!("{} x {wn} {how} -> read as {}", elems.len(), r_e.name);
            c.fault_kind = if peer { "P-peer".into() } else { "P-ver".into() };
            run.submit(c);
            // one element's constructor index rewritten to one the reader does not know
            if faulty {
                if let (Ok(d), AdtDef::Enum(rdef)) = (ref_decode(&cat.reg, &w_e.ty, &bytes), cat.reg.get(&rn)) {
                    let idx: Vec<&model::dec::Mark> = d.marks.iter().filter(|m| m.role == Role::CtorIdx && m.depth == 1).collect();
                    if !idx.is_empty() {
                        let m = *fl.pick(&idx);
                        let n = rdef.wire_order().len() as u32;
                        let cands = [n, n + 1 + fl.below(100) as u32, 256 + fl.below(n.max(1) as u64) as u32, u32::MAX];
                        let j = *fl.pick(&cands);
                        let mut enc = Vec::new();
                        let mut v = j;
                        loop {
                            let b = (v & 0x7f) as u8;
                            v >>= 7;
                            if v == 0 {
                                enc.push(b);
                                break;
                            }
                            enc.push(b | 0x80);
                        }
                        let mut input = bytes.clone();
                        input.splice(m.off..m.off + m.len, enc);
                        let mut c = Case::new("C13", "script", r_e.name, input);
                        c.batch = vec![(r_e.name.to_string(), "err".into())];
                        c.check_rem = false;
                        c.fault = format!("{} x {wn} {how} -> read as {}: constructor index of one element rewritten {} -> {j}", elems.len(), r_e.name, m.value);
                        c.fault_kind = "F-frame".into();
                        run.trace.push(format!("fault F-frame: constructor index {} -> {j} at offset {}", m.value, m.off));
                        run.submit(c);
                    }
                }
            }
        }
    }

    // C12: the container matrix - what one container wrote, read as every other one of its group
    if focus == "C12" {
        let multi = sw.chance(1, 8) && cfg.unordered;
        let mut gen_m = Gen::new(&cat.reg, size);
        if multi {
            gen_m.max_hash_elems = 6;
            run.unordered_run = true;
            run.stats.count("probe.unordered_run_multi_element_hash_containers");
            run.trace.push("hash containers written by the real encoder hold up to 6 elements in this run".into());
        }
        for _ in 0..4 {
            let group = sw.pick(&cat.matrix);
            let s_e = &cat.entries[*sw.pick(group)];
            let d_e = &cat.entries[*sw.pick(group)];
            let val = gen_m.val(&s_e.ty, &mut wl);
            // several elements out of a hash container arrive in an order of the writer's process:
            // only targets that have no order of their own can be judged
            let hash_source = matches!(&s_e.ty, Ty::Seq(_, SeqKind::HashSet) | Ty::Map(_, _, MapKind::Hash));
            let many = match &val {
                Val::Seq(xs) => xs.len() > 1,
                Val::Map(xs) => xs.len() > 1,
                _ => false,
            };
            let unordered_target = matches!(&d_e.ty, Ty::Seq(_, SeqKind::HashSet | SeqKind::BTreeSet) | Ty::Map(..));
            if hash_source && many && !unordered_target {
                run.stats.count("excluded.hash_source_into_ordered_target");
                continue;
            }
            let peer = sw.chance(1, 3);
            let bytes = if peer {
                Some(ref_encode(&cat.reg, &s_e.ty, &val, Forms::mixed(wl.derive("forms"))))
            } else {
                match contain(u64::MAX, || (s_e.encode)(&val)).0 {
                    Outcome::Ok(b) => Some(b),
                    _ => None,
                }
            };
            let Some(mut bytes) = bytes else { continue };
            let exp = evo.convert(&s_e.ty, &d_e.ty, &val);
            let sib = gen.val(&Ty::Str, &mut wl);
            let enc_len = if let Outcome::Ok(sb) = contain(u64::MAX, || (cat.by_name("String").unwrap().encode)(&sib)).0 {
                bytes.extend_from_slice(&sb);
                bytes.len()
            } else {
                bytes.len()
            };
            run.stats.count("probe.container_matrix_case");
            let mut c = Case::new("C12", "script", d_e.name, bytes);
            c.enc_len = enc_len;
            c.batch = vec![(d_e.name.to_string(), expectation(&exp))];
            if exp.is_ok() {
                c.batch.push(("String".to_string(), format!("ok:{sib:?}")));
            }
            c.fault = format!("{} written{} -> read as {}", s_e.name, if peer { " by the reference peer" } else { "" }, d_e.name);
            c.fault_kind = if peer { "P-peer".into() } else { "P-cont".into() };
            run.submit(c);
        }
    }

    // C12: counts of 2^20 and more (the zig-zag count needs four bytes) - a megabyte of one-byte items
    // written by one container in either size form and read as another
    if focus == "C12" && sw.chance(1, 1000) {
        let srcs = ["m.Vec<bool>", "m.LinkedList<bool>", "m.Streamed<bool>", "m.SliceOf<bool>", "m.RcSlice<bool>"];
        let dsts = ["m.Vec<bool>", "m.LinkedList<bool>", "m.BTreeSet<bool>", "m.Streamed<bool>", "m.Array2<bool>"];
        if let (Some(s_e), Some(d_e)) = (cat.by_name(*sw.pick(&srcs)), cat.by_name(*sw.pick(&dsts))) {
            let n = *sw.pick(&[(1usize << 20) - 1, 1 << 20, (1 << 20) + 1, 3 << 19]);
            let val = Val::Seq((0..n).map(|i| Val::Bool(i % 3 == 0)).collect());
            if let Outcome::Ok(mut bytes) = contain(u64::MAX, || (s_e.encode)(&val)).0 {
                let exp = evo.convert(&s_e.ty, &d_e.ty, &val);
                bytes.push(0x5a);
                run.stats.count("probe.container_matrix_megabyte_case");
                let mut c = Case::new("C12", "script", d_e.name, bytes);
                c.enc_len = c.input.len();
                c.batch = vec![(d_e.name.to_string(), expectation(&exp))];
                if exp.is_ok() {
                    c.batch.push(("u8".to_string(), "ok:U(90)".to_string()));
                } else {
                    c.check_rem = false;
                }
                c.fault = format!("{n} items: {} written -> read as {}", s_e.name, d_e.name);
                c.fault_kind = "P-cont".into();
                run.trace.push(format!("a node writes {n} booleans as {}; another reads them as {}", s_e.name, d_e.name));
                run.submit(c);
            }
        }
    }

    // ---- events --------------------------------------------------------------------------------
    for _ in 0..nevents {
        run.stats.events += 1;
        let ni = sc.usize_below(nodes.len());
        match sc.below(10) {
            0..=3 => {
                // Write: one stream (one SerializationContext) holding a family record, optionally
                // between siblings or followed by a second record
                let fi = *sc.pick(&fams);
                let info = &cat.infos[fi];
                let rel = nodes[ni].release;
                let peer = nodes[ni].peer && focus != "C13";
                let toplevel_only = info.tags.contains(&"toplevel_only");
                let form = if toplevel_only || embed_mix == 0 { 0 } else { sc.below(5) };
                let mk = |fi: usize, wl: &mut Rng| {
                    let name = format!("{}_V{}", cat.infos[fi].name, rel);
                    let ty = Ty::Adt(name.clone());
                    let val = gen.val(&ty, wl);
                    Item { entry: name, ty, val, fam: Some(fi) }
                };
                let sib = |entry: &str, wl: &mut Rng| {
                    let e = cat.by_name(entry).unwrap();
                    Item { entry: entry.into(), ty: e.ty.clone(), val: gen.val(&e.ty, wl), fam: None }
                };
                let mut items = Vec::new();
                match form {
                    0 => items.push(mk(fi, &mut wl)),
                    1 => {
                        // in front of the record: a plain number, or (real writer only - the peer
                        // encodes item by item) a hand-written evolved record full of deduplicated
                        // strings, read with the same definition at every release
                        let first = if peer { "u16" } else { *sc.pick(&["u16", "u16", "Ticket", "Tagged", "Tagged2", "Archive"]) };
                        items.push(sib(first, &mut wl));
                        items.push(mk(fi, &mut wl));
                        items.push(sib("String", &mut wl));
                    }
                    2 => {
                        items.push(mk(fi, &mut wl));
                        items.push(sib("Option<u8>", &mut wl));
                    }
                    3 => {
                        // deduplicated strings after the record, some equal to a removed-field name of
                        // its header (judged for same-release reads only: across releases the ids of
                        // the two sides legitimately diverge once a chunk is skipped)
                        let m = mk(fi, &mut wl);
                        let names: Vec<String> = match cat.reg.get(&m.entry) {
                            AdtDef::Record(d) => d.steps.iter().filter_map(|s| match s {
                                Step::Removed(n) | Step::MadeTransient(n) => Some(n.clone()),
                                _ => None,
                            }).collect(),
                            _ => vec![],
                        };
                        items.push(m);
                        let e = cat.by_name("Dedup").unwrap();
                        for _ in 0..3 {
                            let v = if !names.is_empty() && wl.chance(2, 3) { Val::Str(wl.pick(&names).clone()) } else { gen.val(&e.ty, &mut wl) };
                            items.push(Item { entry: "Dedup".into(), ty: e.ty.clone(), val: v, fam: None });
                        }
                    }
                    _ => {
                        items.push(mk(fi, &mut wl));
                        let f2 = *sc.pick(&fams);
                        if !cat.infos[f2].tags.contains(&"toplevel_only") {
                            items.push(mk(f2, &mut wl));
                        }
                        items.push(sib("u8", &mut wl));
                    }
                }
                // encode
                let mut fam_range = (0, 0);
                let bytes = if peer {
                    let mut out = Vec::new();
                    for it in &items {
                        let start = out.len();
                        out.extend(ref_encode(&cat.reg, &it.ty, &it.val, Forms::mixed(wl.derive("forms"))));
                        if it.fam.is_some() && fam_range == (0, 0) {
                            fam_range = (start, out.len());
                        }
                    }
                    Some(out)
                } else {
                    let its = items.clone();
                    let mut ranges = Vec::new();
                    let r = contain(u64::MAX, || {
                        let mut ctx = desert::SerializationContext::new(Vec::new());
                        let mut marks = Vec::new();
                        for it in &its {
                            let e = cat.by_name(&it.entry).unwrap();
                            (e.encode_in)(&it.val, &mut ctx)?;
                            marks.push(0usize);
                        }
                        Ok(ctx.into_output())
                    });
                    match r.0 {
                        Outcome::Ok(b) => {
                            // locate the family record by encoding the items before it on their own
                            let mut pre = 0usize;
                            for it in &items {
                                if it.fam.is_some() {
                                    break;
                                }
                                let e = cat.by_name(&it.entry).unwrap();
                                if let Outcome::Ok(x) = contain(u64::MAX, || (e.encode)(&it.val)).0 {
                                    pre += x.len();
                                }
                            }
                            ranges.push(pre);
                            let e = cat.by_name(&items.iter().find(|i| i.fam.is_some()).unwrap().entry).unwrap();
                            let famv = &items.iter().find(|i| i.fam.is_some()).unwrap().val;
                            let flen = match contain(u64::MAX, || (e.encode)(famv)).0 {
                                Outcome::Ok(x) => x.len(),
                                _ => 0,
                            };
                            fam_range = (pre, pre + flen);
                            Some(b)
                        }
                        other => {
                            // a legal history must be encodable at every release
                            run.stats.count("encode_failed");
                            let mut c = Case::new(focus, "encode", &items.iter().find(|i| i.fam.is_some()).unwrap().entry, vec![]);
                            c.fault = format!("write of {} at release {rel}", info.name);
                            c.expected = Some(format!("{:?}", items.iter().find(|i| i.fam.is_some()).unwrap().val));
                            if focus == "C03" {
                                run.violations.push(Violation {
                                    case: c,
                                    finding: crate::case::Finding {
                                        class: "encode-failed".into(),
                                        detail: format!("a value of a legal history could not be encoded: {}", match other {
                                            Outcome::Err(m) | Outcome::Panic(m) => m,
                                            _ => "?".into(),
                                        }),
                                    },
                                    run_seed,
                                    trace: run.trace.clone(),
                                });
                            }
                            None
                        }
                    }
                };
                if let Some(bytes) = bytes {
                    run.trace.push(format!(
                        "node {ni} (release {rel}{}) writes stream #{}: {:?}, {} bytes",
                        if peer { ", peer" } else { "" },
                        log.len(),
                        items.iter().map(|i| i.entry.as_str()).collect::<Vec<_>>(),
                        bytes.len()
                    ));
                    // C13: an encoded enum is its version byte and the rank of the constructor
                    if focus == "C13" && !peer {
                        let it = items.iter().find(|i| i.fam.is_some()).unwrap();
                        if let (AdtDef::Enum(def), Val::Enum(decl, _)) = (cat.reg.get(&it.entry), &it.val) {
                            let rank = def.wire_order().iter().position(|d| d == decl).unwrap();
                            let mut c = Case::new("C13", "ctor-index", &it.entry, bytes[fam_range.0..fam_range.1].to_vec());
                            c.expected = Some(rank.to_string());
                            c.fault = format!("{} constructor {} written at release {rel}", it.entry, def.ctors[*decl].name);
                            run.submit(c);
                        }
                    }
                    log.push(Stream { items, bytes, writer_release: rel, peer, fam_range });
                }
            }
            4 => {
                if nodes[ni].release + 1 < releases {
                    nodes[ni].release += 1;
                    run.trace.push(format!("node {ni} upgrades to release {}", nodes[ni].release));
                }
            }
            5 => {
                if nodes[ni].release > 0 {
                    nodes[ni].release -= 1;
                    run.trace.push(format!("node {ni} rolls back to release {}", nodes[ni].release));
                }
            }
            6 => {
                // crash of the writer of the last stream: every cut point of a top-level record
                if let Some(s) = log.last() {
                    if s.items.len() == 1 && (focus == "C08" || focus == "C03") && faulty {
                        let it = &s.items[0];
                        let fi = it.fam.unwrap();
                        let n = s.bytes.len();
                        run.trace.push(format!("crash while stream #{} was being written: every cut of its {n} bytes", log.len() - 1));
                        let readers: Vec<usize> = nodes.iter().map(|n| n.release).collect();
                        let cuts: Vec<usize> = if focus == "C08" { (0..n.min(4096)).collect() } else { vec![fl.usize_below(n.max(1))] };
                        for r in readers {
                            let rname = format!("{}_V{}", cat.infos[fi].name, r);
                            let ws = steps_of(&cat.reg, &it.entry, &it.val);
                            let rs = reader_steps(&cat.reg, &rname, &it.entry, &it.val);
                            if r != s.writer_release && ws.is_empty() && has_removal(rs) {
                                run.stats.count("excluded.v0_removal_truncation");
                                continue;
                            }
                            for k in &cuts {
                                if *k >= n {
                                    continue;
                                }
                                let mut c = Case::new(if focus == "C08" { "C08" } else { "C03" }, "truncation", &rname, s.bytes[..*k].to_vec());
                                c.fault = format!("{} w={} -> r={r}: crash after {k} of {n} bytes", cat.infos[fi].name, s.writer_release);
                                c.fault_kind = "F-cut".into();
                                run.submit(c);
                            }
                        }
                        if focus == "C08" {
                            log.pop();
                        }
                    }
                }
            }
            7..=8 => {
                // Scan: the node reads the whole log with its current definitions
                let r = nodes[ni].release;
                run.trace.push(format!("node {ni} (release {r}) scans {} streams", log.len()));
                if focus == "C08" {
                    continue;
                }
                for (si, s) in log.iter().enumerate() {
                    let suffix = if faulty && focus == "C07" && fl.chance(1, 2) { faults::garbage(&mut fl, 24) } else { vec![] };
                    read_stream(&mut run, s, si, r, &suffix, "scan");
                }
            }
            _ => {
                // ReadOne, possibly of a record whose constructor index was corrupted
                if log.is_empty() || focus == "C08" {
                    continue;
                }
                let si = sc.usize_below(log.len());
                let r = nodes[ni].release;
                let s = &log[si];
                if focus == "C13" && faulty && !s.peer {
                    let it = s.items.iter().find(|i| i.fam.is_some()).unwrap();
                    let fi = it.fam.unwrap();
                    let rname = format!("{}_V{}", cat.infos[fi].name, r);
                    if let AdtDef::Enum(rdef) = cat.reg.get(&rname) {
                        let rec = &s.bytes[s.fam_range.0..s.fam_range.1];
                        if let Ok(d) = ref_decode(&cat.reg, &it.ty, rec) {
                            if let Some(m) = d.marks.iter().find(|m| m.role == Role::CtorIdx && m.depth == 1) {
                                // an index the reading definition does not know, or a transient one
                                let order = rdef.wire_order();
                                let mut bad: Vec<u32> = vec![order.len() as u32, order.len() as u32 + 1 + fl.below(200) as u32, u32::MAX, 1 << 31];
                                // unknown indices whose low byte (or low 16 bits) is a known one
                                for k in 0..order.len() as u32 {
                                    bad.push(256 + k);
                                    bad.push(512 * (1 + fl.below(100) as u32) + k);
                                    bad.push(65536 + k);
                                }
                                for (rank, decl) in order.iter().enumerate() {
                                    if rdef.ctors[*decl].transient {
                                        bad.push(rank as u32);
                                    }
                                }
                                let j = *fl.pick(&bad);
                                let mut enc = Vec::new();
                                let mut v = j;
                                loop {
                                    let b = (v & 0x7f) as u8;
                                    v >>= 7;
                                    if v == 0 {
                                        enc.push(b);
                                        break;
                                    }
                                    enc.push(b | 0x80);
                                }
                                if j == u32::MAX && fl.chance(1, 2) {
                                    // ... followed by the original (valid) index: nothing may treat
                                    // the unknown one as "not read yet" and go on with the next
                                    enc.extend_from_slice(&rec[m.off..m.off + m.len]);
                                }
                                let mut input = rec.to_vec();
                                input.splice(m.off..m.off + m.len, enc);
                                let mut c = Case::new("C13", "script", &rname, input);
                                c.batch = vec![(rname.clone(), "err".into())];
                                c.check_rem = false;
                                c.fault = format!("{} -> r={r}: constructor index rewritten {} -> {j}", cat.infos[fi].name, m.value);
                                c.fault_kind = "F-frame".into();
                                run.trace.push(format!("fault F-frame on stream #{si}: constructor index {} -> {j}", m.value));
                                run.submit(c);
                            }
                        }
                    }
                }
                run.trace.push(format!("node {ni} (release {r}) reads stream #{si}"));
                read_stream(&mut run, s, si, r, &[], "read");
            }
        }
    }
    // every run ends with a scan by every node, so no write goes unread
    if focus != "C08" {
        for ni in 0..nodes.len() {
            let r = nodes[ni].release;
            for (si, s) in log.iter().enumerate() {
                read_stream(&mut run, s, si, r, &[], "final scan");
            }
        }
    }
    run.violations
}
