//! S-mem: accounting allocator. Thread-local figures for the allocations made while a library
//! call is being metered: live bytes above the level at `start`, their peak, the largest single
//! request and the number of requests. A request above `HARD_CEILING` is refused (which aborts the
//! worker; the supervisor attributes the abort to the case in flight).

use std::alloc::{GlobalAlloc, Layout, System};
use std::cell::Cell;

pub struct Acct;

pub const HARD_CEILING: usize = 16 << 30;

thread_local! {
    static ON: Cell<bool> = const { Cell::new(false) };
    static LIVE: Cell<isize> = const { Cell::new(0) };
    static PEAK: Cell<isize> = const { Cell::new(0) };
    static LARGEST: Cell<usize> = const { Cell::new(0) };
    static COUNT: Cell<u64> = const { Cell::new(0) };
}

#[derive(Clone, Copy, Debug, Default)]
pub struct MemFigures {
    pub peak: usize,
    pub largest: usize,
    pub count: u64,
}

pub fn start() {
    LIVE.with(|c| c.set(0));
    PEAK.with(|c| c.set(0));
    LARGEST.with(|c| c.set(0));
    COUNT.with(|c| c.set(0));
    ON.with(|c| c.set(true));
}

/// suspends accounting (the harness converts a decoded value into the reference universe)
pub fn pause() {
    ON.with(|c| c.set(false));
}

pub fn resume() {
    ON.with(|c| c.set(true));
}

pub fn stop() -> MemFigures {
    ON.with(|c| c.set(false));
    MemFigures {
        peak: PEAK.with(|c| c.get()).max(0) as usize,
        largest: LARGEST.with(|c| c.get()),
        count: COUNT.with(|c| c.get()),
    }
}

#[inline]
fn on_alloc(size: usize) {
    let _ = ON.try_with(|on| {
        if on.get() {
            LIVE.with(|l| {
                let v = l.get() + size as isize;
                l.set(v);
                PEAK.with(|p| {
                    if v > p.get() {
                        p.set(v)
                    }
                });
            });
            LARGEST.with(|c| {
                if size > c.get() {
                    c.set(size)
                }
            });
            COUNT.with(|c| c.set(c.get() + 1));
        }
    });
}

#[inline]
fn on_free(size: usize) {
    let _ = ON.try_with(|on| {
        if on.get() {
            LIVE.with(|l| l.set(l.get() - size as isize));
        }
    });
}

unsafe impl GlobalAlloc for Acct {
    unsafe fn alloc(&self, layout: Layout) -> *mut u8 {
        if layout.size() > HARD_CEILING {
            return std::ptr::null_mut();
        }
        on_alloc(layout.size());
        System.alloc(layout)
    }
    unsafe fn alloc_zeroed(&self, layout: Layout) -> *mut u8 {
        if layout.size() > HARD_CEILING {
            return std::ptr::null_mut();
        }
        on_alloc(layout.size());
        System.alloc_zeroed(layout)
    }
    unsafe fn dealloc(&self, ptr: *mut u8, layout: Layout) {
        on_free(layout.size());
        System.dealloc(ptr, layout)
    }
    unsafe fn realloc(&self, ptr: *mut u8, layout: Layout, new_size: usize) -> *mut u8 {
        if new_size > HARD_CEILING {
            return std::ptr::null_mut();
        }
        on_free(layout.size());
        on_alloc(new_size);
        System.realloc(ptr, layout, new_size)
    }
}
