//! The type catalogue: monomorphic type expressions over the whole built-in vocabulary plus
//! hand-written derived declarations (the generated evolution families live in families.rs).
//! Each entry is type-erased into function pointers.

use crate::bridge::*;
use bytes::BytesMut;
use desert::{BinaryDeserializer, BinaryInput, BinaryOutput, BinarySerializer, DeserializationContext, SerializationContext, SizeCalculator};
use model::ty::*;
use std::collections::{BTreeMap, BTreeSet, HashMap, HashSet, LinkedList};
use std::rc::Rc;
use std::sync::Arc;
use std::time::Duration;

pub type DecodeIn = for<'a, 'b> fn(&'a mut DeserializationContext<'b>) -> desert::Result<Val>;

/// byte streams of one value through every sink (C15)
pub struct AllSinks {
    pub vec: Vec<u8>,
    pub bytes_mut: Vec<u8>,
    pub to_bytes: Vec<u8>,
    pub to_byte_vec: Vec<u8>,
    pub size_calc: usize,
    pub recording: Vec<u8>,
    pub recording_calls: usize,
    pub paged: Vec<u8>,
    /// sinks whose call returned an error (all or none, if the sinks agree)
    pub failed: Vec<&'static str>,
}

#[derive(Clone)]
pub struct Entry {
    pub name: &'static str,
    pub ty: Ty,
    /// recursive declarations get smaller buffers (DESIGN section 9)
    pub recursive: bool,
    /// contains a zero-sized element type in a sequence
    pub zero_sized_elems: bool,
    pub encode: fn(&Val) -> desert::Result<Vec<u8>>,
    pub encode_all: fn(&Val) -> desert::Result<AllSinks>,
    /// decodes a valid encoding and writes the value through every sink
    pub sinks_from_bytes: fn(&[u8]) -> desert::Result<AllSinks>,
    /// writes the value into an existing stream (one context for several values)
    pub encode_in: fn(&Val, &mut SerializationContext<Vec<u8>>) -> desert::Result<()>,
    pub decode_in: DecodeIn,
}

impl AllSinks {
    /// first disagreement between the sinks, if any
    pub fn disagreement(&self) -> Option<String> {
        if !self.failed.is_empty() {
            return Some(format!("the value could be written to some outputs but not to {:?}", self.failed));
        }
        let all = [
            ("BytesMut", &self.bytes_mut),
            ("serialize_to_bytes", &self.to_bytes),
            ("serialize_to_byte_vec", &self.to_byte_vec),
            ("custom recording output", &self.recording),
            ("custom paged output", &self.paged),
        ];
        for (name, b) in all {
            if *b != self.vec {
                let at = b.iter().zip(self.vec.iter()).position(|(x, y)| x != y).unwrap_or(b.len().min(self.vec.len()));
                return Some(format!(
                    "{name} wrote {} bytes, Vec<u8> wrote {} bytes, first difference at offset {at}",
                    b.len(),
                    self.vec.len()
                ));
            }
        }
        if self.size_calc != self.vec.len() {
            return Some(format!("SizeCalculator reports {} but {} bytes are written", self.size_calc, self.vec.len()));
        }
        None
    }
}

/// a user-defined output that implements only the two required methods and records every call
#[derive(Default)]
pub struct RecordingSink {
    pub data: Vec<u8>,
    pub calls: usize,
}
impl BinaryOutput for RecordingSink {
    fn write_u8(&mut self, value: u8) {
        self.calls += 1;
        self.data.push(value);
    }
    fn write_bytes(&mut self, bytes: &[u8]) {
        self.calls += 1;
        self.data.extend_from_slice(bytes);
    }
}

/// SimDisk sink: fixed-size pages, so that writes are fragmented across page boundaries
pub struct PagedSink {
    pub pages: Vec<Vec<u8>>,
    pub page: usize,
}
impl PagedSink {
    pub fn new(page: usize) -> Self {
        PagedSink { pages: vec![Vec::with_capacity(page)], page }
    }
    pub fn contents(&self) -> Vec<u8> {
        self.pages.concat()
    }
}
impl BinaryOutput for PagedSink {
    fn write_u8(&mut self, value: u8) {
        if self.pages.last().unwrap().len() == self.page {
            self.pages.push(Vec::with_capacity(self.page));
        }
        self.pages.last_mut().unwrap().push(value);
    }
    fn write_bytes(&mut self, bytes: &[u8]) {
        for b in bytes {
            self.write_u8(*b);
        }
    }
}

fn encode<T: Bridge>(v: &Val) -> desert::Result<Vec<u8>> {
    desert::serialize_to_byte_vec(&T::from_val(v))
}

fn encode_in<T: Bridge>(v: &Val, ctx: &mut SerializationContext<Vec<u8>>) -> desert::Result<()> {
    T::from_val(v).serialize(ctx)
}

fn sinks_from_bytes<T: Bridge>(b: &[u8]) -> desert::Result<AllSinks> {
    let x: T = desert::deserialize(b)?;
    all_sinks(&x)
}

fn encode_all<T: Bridge>(v: &Val) -> desert::Result<AllSinks> {
    all_sinks(&T::from_val(v))
}

fn all_sinks<T: Bridge>(x: &T) -> desert::Result<AllSinks> {
    // every sink is called, also after another one has failed: a failed call must not leak into
    // the next one
    let mut failed = Vec::new();
    let mut first_err = None;
    let mut note = |name: &'static str, e: desert::Error| {
        failed.push(name);
        if first_err.is_none() {
            first_err = Some(e);
        }
    };
    let vec = desert::serialize(x, Vec::new()).unwrap_or_else(|e| {
        note("Vec<u8>", e);
        vec![]
    });
    let bytes_mut = desert::serialize(x, BytesMut::new()).map(|b| b.to_vec()).unwrap_or_else(|e| {
        note("BytesMut", e);
        vec![]
    });
    let to_bytes = desert::serialize_to_bytes(x).map(|b| b.to_vec()).unwrap_or_else(|e| {
        note("serialize_to_bytes", e);
        vec![]
    });
    let to_byte_vec = desert::serialize_to_byte_vec(x).unwrap_or_else(|e| {
        note("serialize_to_byte_vec", e);
        vec![]
    });
    let size_calc = desert::serialize(x, SizeCalculator::new()).map(|s| s.size()).unwrap_or_else(|e| {
        note("SizeCalculator", e);
        0
    });
    let (recording, recording_calls) = desert::serialize(x, RecordingSink::default())
        .map(|r| (r.data, r.calls))
        .unwrap_or_else(|e| {
            note("custom recording output", e);
            (vec![], 0)
        });
    let paged = desert::serialize(x, PagedSink::new(7)).map(|p| p.contents()).unwrap_or_else(|e| {
        note("custom paged output", e);
        vec![]
    });
    if failed.len() == 7 {
        return Err(first_err.unwrap());
    }
    Ok(AllSinks { vec, bytes_mut, to_bytes, to_byte_vec, size_calc, recording, recording_calls, paged, failed })
}

fn decode_in<T: Bridge>(ctx: &mut DeserializationContext<'_>) -> desert::Result<Val> {
    let x = T::deserialize(ctx)?;
    // only the library call is metered, not the conversion into the reference universe
    crate::alloc::pause();
    let v = x.to_val();
    crate::alloc::resume();
    drop(x);
    Ok(v)
}

/// bytes still readable from a context, measured through the public `BinaryInput` impl
pub fn remaining(ctx: &mut DeserializationContext<'_>) -> usize {
    let mut n = 0usize;
    let mut k = 1usize << 24;
    while k > 0 {
        while ctx.skip(k).is_ok() {
            n += k;
        }
        k >>= 1;
    }
    n
}

fn has_zero_sized_seq(ty: &Ty) -> bool {
    fn zero(t: &Ty) -> bool {
        match t {
            Ty::Unit => true,
            Ty::Boxed(x) => zero(x),
            Ty::Seq(x, SeqKind::Array(n)) => *n == 0 || zero(x),
            _ => false,
        }
    }
    match ty {
        Ty::Seq(e, _) => zero(e) || has_zero_sized_seq(e),
        Ty::Opt(e) | Ty::Boxed(e) => has_zero_sized_seq(e),
        Ty::Res(a, b) | Ty::Map(a, b, _) => has_zero_sized_seq(a) || has_zero_sized_seq(b),
        Ty::Tuple(ts) => ts.iter().any(has_zero_sized_seq),
        _ => false,
    }
}

fn zero_sized_inside(reg: &Registry, ty: &Ty, seen: &mut Vec<String>) -> bool {
    if has_zero_sized_seq(ty) {
        return true;
    }
    match ty {
        Ty::Adt(name) => {
            if seen.contains(name) {
                return false;
            }
            seen.push(name.clone());
            match reg.get(name) {
                AdtDef::Record(r) => r.fields.iter().any(|f| zero_sized_inside(reg, &f.ty, seen)),
                AdtDef::Enum(e) => e.ctors.iter().any(|c| c.record.fields.iter().any(|f| zero_sized_inside(reg, &f.ty, seen))),
            }
        }
        Ty::Seq(e, _) | Ty::Opt(e) | Ty::Boxed(e) => zero_sized_inside(reg, e, seen),
        Ty::Res(a, b) | Ty::Map(a, b, _) => zero_sized_inside(reg, a, seen) || zero_sized_inside(reg, b, seen),
        Ty::Tuple(ts) => ts.iter().any(|t| zero_sized_inside(reg, t, seen)),
        _ => false,
    }
}

pub fn entry<T: Bridge>(name: &'static str, reg: &mut Registry) -> Entry {
    T::register(reg);
    let ty = T::ty();
    Entry {
        name,
        zero_sized_elems: has_zero_sized_seq(&ty),
        recursive: false,
        ty,
        encode: encode::<T>,
        encode_all: encode_all::<T>,
        encode_in: encode_in::<T>,
        sinks_from_bytes: sinks_from_bytes::<T>,
        decode_in: decode_in::<T>,
    }
}

// ---- hand-written derived declarations -------------------------------------------------------

use desert_macro::BinaryCodec;

fn field(name: &str, ty: Ty) -> FieldDef {
    FieldDef { name: name.into(), ty, transient: None, default: None }
}

/// the repository's own `Point` (derivation.rs): FieldAdded("x", 0), FieldRemoved("z")
#[derive(Debug, PartialEq, BinaryCodec)]
#[evolution(FieldAdded("x", 0), FieldRemoved("z"))]
pub struct Point {
    pub x: i32,
    pub y: i32,
    #[transient(None::<String>)]
    pub cached: Option<String>,
}
impl Bridge for Point {
    fn ty() -> Ty {
        Ty::Adt("Point".into())
    }
    fn register(reg: &mut Registry) {
        reg.insert(AdtDef::Record(RecordDef {
            name: "Point".into(),
            option_aware: true,
            steps: vec![Step::Added("x".into()), Step::Removed("z".into())],
            fields: vec![
                FieldDef { name: "x".into(), ty: Ty::I32, transient: None, default: Some(Val::I(0)) },
                field("y", Ty::I32),
                FieldDef { name: "cached".into(), ty: Ty::opt(Ty::Str), transient: Some(Val::None), default: None },
            ],
        }));
    }
    fn to_val(&self) -> Val {
        Val::Record(vec![self.x.to_val(), self.y.to_val(), self.cached.to_val()])
    }
    fn from_val(v: &Val) -> Self {
        let f = v.items();
        Point { x: Bridge::from_val(&f[0]), y: Bridge::from_val(&f[1]), cached: Bridge::from_val(&f[2]) }
    }
}

/// a derived unit struct: zero-sized in memory, one byte (the version) on the wire
#[derive(Debug, PartialEq, Eq, PartialOrd, Ord, Hash, Clone, Copy, BinaryCodec)]
pub struct Marker;
impl Bridge for Marker {
    fn ty() -> Ty {
        Ty::Adt("Marker".into())
    }
    fn register(reg: &mut Registry) {
        reg.insert(AdtDef::Record(RecordDef { name: "Marker".into(), option_aware: true, steps: vec![], fields: vec![] }));
    }
    fn to_val(&self) -> Val {
        Val::Record(vec![])
    }
    fn from_val(_: &Val) -> Self {
        Marker
    }
}

#[derive(Debug, PartialEq, BinaryCodec)]
pub enum Choices {
    A,
    B(String),
    C { pt: Option<Point>, z: u64 },
}
impl Bridge for Choices {
    fn ty() -> Ty {
        Ty::Adt("Choices".into())
    }
    fn register(reg: &mut Registry) {
        Point::register(reg);
        let ctor = |name: &str, fields: Vec<FieldDef>| CtorDef {
            name: name.into(),
            transient: false,
            record: RecordDef { name: name.into(), option_aware: true, steps: vec![], fields },
        };
        reg.insert(AdtDef::Enum(EnumDef {
            name: "Choices".into(),
            sorted: false,
            ctors: vec![
                ctor("A", vec![]),
                ctor("B", vec![field("field0", Ty::Str)]),
                ctor("C", vec![field("pt", Ty::opt(Point::ty())), field("z", Ty::U64)]),
            ],
        }));
    }
    fn to_val(&self) -> Val {
        match self {
            Choices::A => Val::Enum(0, vec![]),
            Choices::B(s) => Val::Enum(1, vec![s.to_val()]),
            Choices::C { pt, z } => Val::Enum(2, vec![pt.to_val(), z.to_val()]),
        }
    }
    fn from_val(v: &Val) -> Self {
        match v {
            Val::Enum(0, _) => Choices::A,
            Val::Enum(1, f) => Choices::B(Bridge::from_val(&f[0])),
            Val::Enum(2, f) => Choices::C { pt: Bridge::from_val(&f[0]), z: Bridge::from_val(&f[1]) },
            o => panic!("bridge: {o:?}"),
        }
    }
}

/// recursion through Option<Box<Self>>
#[derive(Debug, PartialEq, BinaryCodec)]
pub struct Node {
    pub v: u32,
    pub next: Option<Box<Node>>,
}
impl Bridge for Node {
    fn ty() -> Ty {
        Ty::Adt("Node".into())
    }
    fn register(reg: &mut Registry) {
        if reg.contains("Node") {
            return;
        }
        reg.insert(AdtDef::Record(RecordDef {
            name: "Node".into(),
            option_aware: true,
            steps: vec![],
            fields: vec![
                field("v", Ty::U32),
                field("next", Ty::opt(Ty::Boxed(Box::new(Ty::Adt("Node".into()))))),
            ],
        }));
    }
    fn to_val(&self) -> Val {
        Val::Record(vec![self.v.to_val(), self.next.to_val()])
    }
    fn from_val(v: &Val) -> Self {
        let f = v.items();
        Node { v: Bridge::from_val(&f[0]), next: Bridge::from_val(&f[1]) }
    }
}

/// recursion through Vec<Self>, evolved (so every level carries a header and chunks)
#[derive(Debug, PartialEq, BinaryCodec)]
#[evolution(FieldAdded("kids", Vec::new()))]
pub struct Tree {
    pub label: String,
    pub kids: Vec<Tree>,
}
impl Bridge for Tree {
    fn ty() -> Ty {
        Ty::Adt("Tree".into())
    }
    fn register(reg: &mut Registry) {
        if reg.contains("Tree") {
            return;
        }
        reg.insert(AdtDef::Record(RecordDef {
            name: "Tree".into(),
            option_aware: true,
            steps: vec![Step::Added("kids".into())],
            fields: vec![
                field("label", Ty::Str),
                FieldDef {
                    name: "kids".into(),
                    ty: Ty::vec(Ty::Adt("Tree".into())),
                    transient: None,
                    default: Some(Val::Seq(vec![])),
                },
            ],
        }));
    }
    fn to_val(&self) -> Val {
        Val::Record(vec![self.label.to_val(), self.kids.to_val()])
    }
    fn from_val(v: &Val) -> Self {
        let f = v.items();
        Tree { label: Bridge::from_val(&f[0]), kids: Bridge::from_val(&f[1]) }
    }
}

/// sorted constructors, a transient constructor in the middle, an evolved struct variant
#[derive(Debug, PartialEq, BinaryCodec)]
#[sorted_constructors]
pub enum Shape {
    Zed,
    #[evolution(FieldAdded("h", 1u8), FieldMadeOptional("w"))]
    Box2 {
        w: Option<u16>,
        h: u8,
    },
    #[transient]
    Cache(u64),
    Alpha(i16, String),
}
impl Bridge for Shape {
    fn ty() -> Ty {
        Ty::Adt("Shape".into())
    }
    fn register(reg: &mut Registry) {
        let ctor = |name: &str, transient: bool, steps: Vec<Step>, fields: Vec<FieldDef>| CtorDef {
            name: name.into(),
            transient,
            record: RecordDef { name: name.into(), option_aware: true, steps, fields },
        };
        reg.insert(AdtDef::Enum(EnumDef {
            name: "Shape".into(),
            sorted: true,
            ctors: vec![
                ctor("Zed", false, vec![], vec![]),
                ctor(
                    "Box2",
                    false,
                    vec![Step::Added("h".into()), Step::MadeOptional("w".into())],
                    vec![
                        field("w", Ty::opt(Ty::U16)),
                        FieldDef { name: "h".into(), ty: Ty::U8, transient: None, default: Some(Val::U(1)) },
                    ],
                ),
                ctor("Cache", true, vec![], vec![field("field0", Ty::U64)]),
                ctor("Alpha", false, vec![], vec![field("field0", Ty::I16), field("field1", Ty::Str)]),
            ],
        }));
    }
    fn to_val(&self) -> Val {
        match self {
            Shape::Zed => Val::Enum(0, vec![]),
            Shape::Box2 { w, h } => Val::Enum(1, vec![w.to_val(), h.to_val()]),
            Shape::Cache(x) => Val::Enum(2, vec![x.to_val()]),
            Shape::Alpha(a, b) => Val::Enum(3, vec![a.to_val(), b.to_val()]),
        }
    }
    fn from_val(v: &Val) -> Self {
        match v {
            Val::Enum(0, _) => Shape::Zed,
            Val::Enum(1, f) => Shape::Box2 { w: Bridge::from_val(&f[0]), h: Bridge::from_val(&f[1]) },
            Val::Enum(2, f) => Shape::Cache(Bridge::from_val(&f[0])),
            Val::Enum(3, f) => Shape::Alpha(Bridge::from_val(&f[0]), Bridge::from_val(&f[1])),
            o => panic!("bridge: {o:?}"),
        }
    }
}

/// an evolved record nested in a chunk of another evolved record, next to sibling fields
#[derive(Debug, PartialEq, BinaryCodec)]
#[evolution(FieldAdded("extra", None), FieldAdded("pt", Point { x: 7, y: 8, cached: None }), FieldMadeOptional("n"))]
pub struct Outer {
    pub id: u32,
    pub n: Option<i64>,
    pub extra: Option<String>,
    pub pt: Point,
    pub tail: u16,
}
impl Bridge for Outer {
    fn ty() -> Ty {
        Ty::Adt("Outer".into())
    }
    fn register(reg: &mut Registry) {
        Point::register(reg);
        reg.insert(AdtDef::Record(RecordDef {
            name: "Outer".into(),
            option_aware: true,
            steps: vec![Step::Added("extra".into()), Step::Added("pt".into()), Step::MadeOptional("n".into())],
            fields: vec![
                field("id", Ty::U32),
                field("n", Ty::opt(Ty::I64)),
                FieldDef { name: "extra".into(), ty: Ty::opt(Ty::Str), transient: None, default: Some(Val::None) },
                FieldDef {
                    name: "pt".into(),
                    ty: Point::ty(),
                    transient: None,
                    default: Some(Val::Record(vec![Val::I(7), Val::I(8), Val::None])),
                },
                field("tail", Ty::U16),
            ],
        }));
    }
    fn to_val(&self) -> Val {
        Val::Record(vec![
            self.id.to_val(),
            self.n.to_val(),
            self.extra.to_val(),
            self.pt.to_val(),
            self.tail.to_val(),
        ])
    }
    fn from_val(v: &Val) -> Self {
        let f = v.items();
        Outer {
            id: Bridge::from_val(&f[0]),
            n: Bridge::from_val(&f[1]),
            extra: Bridge::from_val(&f[2]),
            pt: Bridge::from_val(&f[3]),
            tail: Bridge::from_val(&f[4]),
        }
    }
}

/// a version-0 record with deduplicated strings (no evolution header)
#[derive(BinaryCodec)]
pub struct Names {
    pub a: Dedup,
    pub b: Dedup,
    pub c: Vec<Dedup>,
}
impl Bridge for Names {
    fn ty() -> Ty {
        Ty::Adt("Names".into())
    }
    fn register(reg: &mut Registry) {
        reg.insert(AdtDef::Record(RecordDef {
            name: "Names".into(),
            option_aware: true,
            steps: vec![],
            fields: vec![field("a", Ty::DedupStr), field("b", Ty::DedupStr), field("c", Ty::vec(Ty::DedupStr))],
        }));
    }
    fn to_val(&self) -> Val {
        Val::Record(vec![self.a.to_val(), self.b.to_val(), self.c.to_val()])
    }
    fn from_val(v: &Val) -> Self {
        let f = v.items();
        Names { a: Bridge::from_val(&f[0]), b: Bridge::from_val(&f[1]), c: Bridge::from_val(&f[2]) }
    }
}

/// a client-defined codec that fails *after* having written its payload when `fail` is set
/// (successful encodings are those of the derived twin `FragileWire`)
pub struct Fragile {
    pub text: String,
    pub fail: bool,
}
#[derive(BinaryCodec)]
pub struct FragileWire {
    pub text: String,
    pub fail: bool,
}
impl desert::BinarySerializer for Fragile {
    fn serialize<O: BinaryOutput>(&self, context: &mut SerializationContext<O>) -> desert::Result<()> {
        FragileWire { text: self.text.clone(), fail: self.fail }.serialize(context)?;
        if self.fail {
            Err(desert::Error::LengthTooLarge)
        } else {
            Ok(())
        }
    }
}
impl desert::BinaryDeserializer for Fragile {
    fn deserialize(context: &mut DeserializationContext<'_>) -> desert::Result<Self> {
        let w = FragileWire::deserialize(context)?;
        Ok(Fragile { text: w.text, fail: w.fail })
    }
}
impl Bridge for Fragile {
    fn ty() -> Ty {
        Ty::Adt("Fragile".into())
    }
    fn register(reg: &mut Registry) {
        reg.insert(AdtDef::Record(RecordDef {
            name: "Fragile".into(),
            option_aware: true,
            steps: vec![],
            fields: vec![field("text", Ty::Str), field("fail", Ty::Bool)],
        }));
    }
    fn to_val(&self) -> Val {
        Val::Record(vec![self.text.to_val(), self.fail.to_val()])
    }
    fn from_val(v: &Val) -> Self {
        let f = v.items();
        Fragile { text: Bridge::from_val(&f[0]), fail: Bridge::from_val(&f[1]) }
    }
}

/// deduplicated strings inside records whose headers carry removed-field names (themselves
/// deduplicated strings of the stream); same-version reading only
#[derive(BinaryCodec)]
#[evolution(FieldRemoved("legacy"), FieldAdded("third", Dedup(desert::DeduplicatedString(String::new()))), FieldRemoved("older"), FieldMadeTransient("cache"))]
pub struct Tagged {
    pub first: Dedup,
    pub second: Dedup,
    pub third: Dedup,
    #[transient(0u8)]
    pub cache: u8,
}
impl Bridge for Tagged {
    fn ty() -> Ty {
        Ty::Adt("Tagged".into())
    }
    fn register(reg: &mut Registry) {
        reg.insert(AdtDef::Record(RecordDef {
            name: "Tagged".into(),
            option_aware: true,
            steps: vec![
                Step::Removed("legacy".into()),
                Step::Added("third".into()),
                Step::Removed("older".into()),
                Step::MadeTransient("cache".into()),
            ],
            fields: vec![
                field("first", Ty::DedupStr),
                field("second", Ty::DedupStr),
                FieldDef { name: "third".into(), ty: Ty::DedupStr, transient: None, default: Some(Val::str("")) },
                FieldDef { name: "cache".into(), ty: Ty::U8, transient: Some(Val::U(0)), default: None },
            ],
        }));
    }
    fn to_val(&self) -> Val {
        Val::Record(vec![self.first.to_val(), self.second.to_val(), self.third.to_val(), self.cache.to_val()])
    }
    fn from_val(v: &Val) -> Self {
        let f = v.items();
        Tagged { first: Bridge::from_val(&f[0]), second: Bridge::from_val(&f[1]), third: Bridge::from_val(&f[2]), cache: Bridge::from_val(&f[3]) }
    }
}

/// later-added fields declared in front of original ones, all deduplicated strings: string ids
/// follow the declaration order of the fields, the bytes the order of the chunks
#[derive(BinaryCodec)]
#[evolution(FieldAdded("owner", Dedup(desert::DeduplicatedString(String::new()))), FieldAdded("watchers", Vec::new()))]
pub struct Ticket {
    pub owner: Dedup,
    pub reporter: Dedup,
    pub watchers: Vec<Dedup>,
    pub id: u8,
    pub summary: Dedup,
}
impl Bridge for Ticket {
    fn ty() -> Ty {
        Ty::Adt("Ticket".into())
    }
    fn register(reg: &mut Registry) {
        reg.insert(AdtDef::Record(RecordDef {
            name: "Ticket".into(),
            option_aware: true,
            steps: vec![Step::Added("owner".into()), Step::Added("watchers".into())],
            fields: vec![
                FieldDef { name: "owner".into(), ty: Ty::DedupStr, transient: None, default: Some(Val::str("")) },
                field("reporter", Ty::DedupStr),
                FieldDef { name: "watchers".into(), ty: Ty::vec(Ty::DedupStr), transient: None, default: Some(Val::Seq(vec![])) },
                field("id", Ty::U8),
                field("summary", Ty::DedupStr),
            ],
        }));
    }
    fn to_val(&self) -> Val {
        Val::Record(vec![self.owner.to_val(), self.reporter.to_val(), self.watchers.to_val(), self.id.to_val(), self.summary.to_val()])
    }
    fn from_val(v: &Val) -> Self {
        let f = v.items();
        Ticket {
            owner: Bridge::from_val(&f[0]),
            reporter: Bridge::from_val(&f[1]),
            watchers: Bridge::from_val(&f[2]),
            id: Bridge::from_val(&f[3]),
            summary: Bridge::from_val(&f[4]),
        }
    }
}

/// a field made optional, another one removed, then the first one removed: the header names the
/// first field before the second one
#[derive(BinaryCodec)]
#[evolution(FieldMadeOptional("first"), FieldRemoved("second"), FieldRemoved("first"))]
pub struct Tagged2 {
    pub a: Dedup,
    pub b: Dedup,
    pub c: Vec<Dedup>,
}
impl Bridge for Tagged2 {
    fn ty() -> Ty {
        Ty::Adt("Tagged2".into())
    }
    fn register(reg: &mut Registry) {
        reg.insert(AdtDef::Record(RecordDef {
            name: "Tagged2".into(),
            option_aware: true,
            steps: vec![Step::MadeOptional("first".into()), Step::Removed("second".into()), Step::Removed("first".into())],
            fields: vec![field("a", Ty::DedupStr), field("b", Ty::DedupStr), field("c", Ty::vec(Ty::DedupStr))],
        }));
    }
    fn to_val(&self) -> Val {
        Val::Record(vec![self.a.to_val(), self.b.to_val(), self.c.to_val()])
    }
    fn from_val(v: &Val) -> Self {
        let f = v.items();
        Tagged2 { a: Bridge::from_val(&f[0]), b: Bridge::from_val(&f[1]), c: Bridge::from_val(&f[2]) }
    }
}

/// explicit discriminants do not influence constructor indices
#[derive(BinaryCodec)]
pub enum Priority {
    Low = 1,
    Normal = 2,
    High = 7,
    Critical = 4,
}
impl Bridge for Priority {
    fn ty() -> Ty {
        Ty::Adt("Priority".into())
    }
    fn register(reg: &mut Registry) {
        let ctor = |name: &str| CtorDef {
            name: name.into(),
            transient: false,
            record: RecordDef { name: name.into(), option_aware: true, steps: vec![], fields: vec![] },
        };
        reg.insert(AdtDef::Enum(EnumDef {
            name: "Priority".into(),
            sorted: false,
            ctors: vec![ctor("Low"), ctor("Normal"), ctor("High"), ctor("Critical")],
        }));
    }
    fn to_val(&self) -> Val {
        Val::Enum(
            match self {
                Priority::Low => 0,
                Priority::Normal => 1,
                Priority::High => 2,
                Priority::Critical => 3,
            },
            vec![],
        )
    }
    fn from_val(v: &Val) -> Self {
        match v {
            Val::Enum(0, _) => Priority::Low,
            Val::Enum(1, _) => Priority::Normal,
            Val::Enum(2, _) => Priority::High,
            Val::Enum(3, _) => Priority::Critical,
            o => panic!("bridge: {o:?}"),
        }
    }
}

/// two declarations of the same name in different modules (versioned modules are a common way to
/// keep old definitions around): their metadata must not be confused
pub mod dup_a {
    use desert_macro::BinaryCodec;
    #[derive(BinaryCodec)]
    pub struct Item {
        pub id: u32,
        pub name: String,
    }
    #[derive(BinaryCodec)]
    pub enum Kind {
        One,
        Two(u8),
    }
}
pub mod dup_b {
    use desert_macro::BinaryCodec;
    #[derive(BinaryCodec)]
    #[evolution(FieldAdded("extra", 7u8), FieldRemoved("old"))]
    pub struct Item {
        pub id: u32,
        pub extra: u8,
    }
    #[derive(BinaryCodec)]
    pub enum Kind {
        #[evolution(FieldAdded("n", 1u16))]
        One {
            n: u16,
        },
        Two(u8),
        Three,
    }
}
impl Bridge for dup_a::Item {
    fn ty() -> Ty {
        Ty::Adt("dup_a::Item".into())
    }
    fn register(reg: &mut Registry) {
        reg.insert(AdtDef::Record(RecordDef {
            name: "dup_a::Item".into(),
            option_aware: true,
            steps: vec![],
            fields: vec![field("id", Ty::U32), field("name", Ty::Str)],
        }));
    }
    fn to_val(&self) -> Val {
        Val::Record(vec![self.id.to_val(), self.name.to_val()])
    }
    fn from_val(v: &Val) -> Self {
        let f = v.items();
        dup_a::Item { id: Bridge::from_val(&f[0]), name: Bridge::from_val(&f[1]) }
    }
}
impl Bridge for dup_b::Item {
    fn ty() -> Ty {
        Ty::Adt("dup_b::Item".into())
    }
    fn register(reg: &mut Registry) {
        reg.insert(AdtDef::Record(RecordDef {
            name: "dup_b::Item".into(),
            option_aware: true,
            steps: vec![Step::Added("extra".into()), Step::Removed("old".into())],
            fields: vec![
                field("id", Ty::U32),
                FieldDef { name: "extra".into(), ty: Ty::U8, transient: None, default: Some(Val::U(7)) },
            ],
        }));
    }
    fn to_val(&self) -> Val {
        Val::Record(vec![self.id.to_val(), self.extra.to_val()])
    }
    fn from_val(v: &Val) -> Self {
        let f = v.items();
        dup_b::Item { id: Bridge::from_val(&f[0]), extra: Bridge::from_val(&f[1]) }
    }
}
impl Bridge for dup_a::Kind {
    fn ty() -> Ty {
        Ty::Adt("dup_a::Kind".into())
    }
    fn register(reg: &mut Registry) {
        let ctor = |name: &str, fields: Vec<FieldDef>| CtorDef {
            name: name.into(),
            transient: false,
            record: RecordDef { name: name.into(), option_aware: true, steps: vec![], fields },
        };
        reg.insert(AdtDef::Enum(EnumDef {
            name: "dup_a::Kind".into(),
            sorted: false,
            ctors: vec![ctor("One", vec![]), ctor("Two", vec![field("field0", Ty::U8)])],
        }));
    }
    fn to_val(&self) -> Val {
        match self {
            dup_a::Kind::One => Val::Enum(0, vec![]),
            dup_a::Kind::Two(x) => Val::Enum(1, vec![x.to_val()]),
        }
    }
    fn from_val(v: &Val) -> Self {
        match v {
            Val::Enum(0, _) => dup_a::Kind::One,
            Val::Enum(1, f) => dup_a::Kind::Two(Bridge::from_val(&f[0])),
            o => panic!("bridge: {o:?}"),
        }
    }
}
impl Bridge for dup_b::Kind {
    fn ty() -> Ty {
        Ty::Adt("dup_b::Kind".into())
    }
    fn register(reg: &mut Registry) {
        let ctor = |name: &str, steps: Vec<Step>, fields: Vec<FieldDef>| CtorDef {
            name: name.into(),
            transient: false,
            record: RecordDef { name: name.into(), option_aware: true, steps, fields },
        };
        reg.insert(AdtDef::Enum(EnumDef {
            name: "dup_b::Kind".into(),
            sorted: false,
            ctors: vec![
                ctor(
                    "One",
                    vec![Step::Added("n".into())],
                    vec![FieldDef { name: "n".into(), ty: Ty::U16, transient: None, default: Some(Val::U(1)) }],
                ),
                ctor("Two", vec![], vec![field("field0", Ty::U8)]),
                ctor("Three", vec![], vec![]),
            ],
        }));
    }
    fn to_val(&self) -> Val {
        match self {
            dup_b::Kind::One { n } => Val::Enum(0, vec![n.to_val()]),
            dup_b::Kind::Two(x) => Val::Enum(1, vec![x.to_val()]),
            dup_b::Kind::Three => Val::Enum(2, vec![]),
        }
    }
    fn from_val(v: &Val) -> Self {
        match v {
            Val::Enum(0, f) => dup_b::Kind::One { n: Bridge::from_val(&f[0]) },
            Val::Enum(1, f) => dup_b::Kind::Two(Bridge::from_val(&f[0])),
            Val::Enum(2, _) => dup_b::Kind::Three,
            o => panic!("bridge: {o:?}"),
        }
    }
}

/// a client codec that stores its bytes as a compressed frame
pub struct Zipped(pub Vec<u8>);
impl desert::BinarySerializer for Zipped {
    fn serialize<O: BinaryOutput>(&self, context: &mut SerializationContext<O>) -> desert::Result<()> {
        context.write_compressed(&self.0, Default::default())
    }
}
impl desert::BinaryDeserializer for Zipped {
    fn deserialize(context: &mut DeserializationContext<'_>) -> desert::Result<Self> {
        Ok(Zipped(context.read_compressed()?))
    }
}
impl Bridge for Zipped {
    fn ty() -> Ty {
        Ty::Compressed
    }
    fn to_val(&self) -> Val {
        Val::Bytes(self.0.clone())
    }
    fn from_val(v: &Val) -> Self {
        Zipped(v.as_bytes().to_vec())
    }
}

/// compressed blocks inside chunks of an evolved record, between sibling fields
#[derive(BinaryCodec)]
#[evolution(FieldAdded("blob", Zipped(Vec::new())), FieldAdded("more", None))]
pub struct Archive {
    pub id: u32,
    pub head: Zipped,
    pub blob: Zipped,
    pub tail: u16,
    pub more: Option<Zipped>,
}
impl Bridge for Archive {
    fn ty() -> Ty {
        Ty::Adt("Archive".into())
    }
    fn register(reg: &mut Registry) {
        reg.insert(AdtDef::Record(RecordDef {
            name: "Archive".into(),
            option_aware: true,
            steps: vec![Step::Added("blob".into()), Step::Added("more".into())],
            fields: vec![
                field("id", Ty::U32),
                field("head", Ty::Compressed),
                FieldDef { name: "blob".into(), ty: Ty::Compressed, transient: None, default: Some(Val::Bytes(vec![])) },
                field("tail", Ty::U16),
                FieldDef { name: "more".into(), ty: Ty::opt(Ty::Compressed), transient: None, default: Some(Val::None) },
            ],
        }));
    }
    fn to_val(&self) -> Val {
        Val::Record(vec![self.id.to_val(), self.head.to_val(), self.blob.to_val(), self.tail.to_val(), self.more.to_val()])
    }
    fn from_val(v: &Val) -> Self {
        let f = v.items();
        Archive {
            id: Bridge::from_val(&f[0]),
            head: Bridge::from_val(&f[1]),
            blob: Bridge::from_val(&f[2]),
            tail: Bridge::from_val(&f[3]),
            more: Bridge::from_val(&f[4]),
        }
    }
}

/// an evolved record with a fragile field in a later chunk: when it fails, earlier chunks have
/// already been written into their buffers
#[derive(BinaryCodec)]
#[evolution(FieldAdded("f", Fragile { text: String::new(), fail: false }), FieldAdded("z", 0u8))]
pub struct Brittle {
    pub a: u32,
    pub f: Fragile,
    pub s: String,
    pub z: u8,
}
impl Bridge for Brittle {
    fn ty() -> Ty {
        Ty::Adt("Brittle".into())
    }
    fn register(reg: &mut Registry) {
        Fragile::register(reg);
        reg.insert(AdtDef::Record(RecordDef {
            name: "Brittle".into(),
            option_aware: true,
            steps: vec![Step::Added("f".into()), Step::Added("z".into())],
            fields: vec![
                field("a", Ty::U32),
                FieldDef {
                    name: "f".into(),
                    ty: Fragile::ty(),
                    transient: None,
                    default: Some(Val::Record(vec![Val::str(""), Val::Bool(false)])),
                },
                field("s", Ty::Str),
                FieldDef { name: "z".into(), ty: Ty::U8, transient: None, default: Some(Val::U(0)) },
            ],
        }));
    }
    fn to_val(&self) -> Val {
        Val::Record(vec![self.a.to_val(), self.f.to_val(), self.s.to_val(), self.z.to_val()])
    }
    fn from_val(v: &Val) -> Self {
        let f = v.items();
        Brittle {
            a: Bridge::from_val(&f[0]),
            f: Bridge::from_val(&f[1]),
            s: Bridge::from_val(&f[2]),
            z: Bridge::from_val(&f[3]),
        }
    }
}

include!("big_enum.rs");

macro_rules! cat {
    ($reg:expr; $($t:ty),* $(,)?) => {
        vec![$(entry::<$t>(stringify!($t), $reg)),*]
    };
}

pub struct Catalog {
    pub reg: Registry,
    pub entries: Vec<Entry>,
    /// number of built-in entries at the front of `entries` (the rest are generated families)
    pub builtins: usize,
    pub fams: model::evo::Families,
    pub infos: Vec<crate::families_gen::FamilyInfo>,
    /// C12: groups of mutually replaceable containers (entry indices), one group per element type
    pub matrix: Vec<Vec<usize>>,
}

impl Catalog {
    pub fn by_name(&self, name: &str) -> Option<&Entry> {
        self.entries.iter().find(|e| e.name == name)
    }
}

type Dt<T> = chrono::DateTime<T>;

pub fn builtin_catalog() -> Catalog {
    use bigdecimal::num_bigint::BigInt;
    use bigdecimal::BigDecimal;
    use bytes::Bytes;
    use chrono::{FixedOffset, Local, Month, NaiveDate, NaiveDateTime, NaiveTime, Utc, Weekday};
    use chrono_tz::Tz;
    use uuid::Uuid;
    let mut reg = Registry::default();
    let r = &mut reg;
    let mut entries = cat![r;
        u8, i8, u16, i16, u32, i32, u64, i64, u128, i128, f32, f64, bool, (), char, String, Duration,
        Option<u8>, Option<String>, Option<Option<bool>>, Result<u32, String>, Result<(), Vec<u8>>,
        (u8,), (String,), (u8, String), (i32, i64, bool), (u8, u16, u32, u64),
        (bool, String, (), i8, f64), (u8, u8, u8, u8, u8, u8), (i16, String, Option<u8>, u64, bool, char, f32),
        (u8, i8, u16, i16, u32, i32, u64, i64),
        Vec<u16>, Vec<String>, Vec<Vec<i32>>, Vec<Option<u64>>, Vec<()>, Vec<(u8, String)>, Vec<bool>,
        [u32; 3], [String; 2], [u16; 2], [u8; 4], [u8; 20], [(); 2], [Option<u8>; 3], Vec<u8>, Bytes,
        Vec<[u8; 2]>, Vec<Vec<u8>>,
        HashSet<u32>, BTreeSet<String>, HashMap<String, u32>, BTreeMap<u16, Vec<u8>>, LinkedList<i64>,
        LinkedList<String>, BTreeSet<(u8, i8)>, BTreeMap<String, BTreeMap<u8, bool>>,
        Box<u32>, Rc<String>, Arc<Vec<u16>>, Box<(u8, Option<Box<u8>>)>, Option<Rc<[u16; 2]>>,
        Uuid, Weekday, Month, FixedOffset, Tz, Dt<Utc>, NaiveDate, NaiveTime, NaiveDateTime, Dt<Local>,
        Dt<FixedOffset>, Dt<Tz>, BigInt, BigDecimal,
        Vec<NaiveDate>, Option<Uuid>, (Month, Weekday), BTreeMap<String, Vec<Option<BigInt>>>,
        Result<Duration, BigDecimal>, Vec<(Uuid, Dt<Utc>)>, Dedup, Vec<Dedup>, (Dedup, String, Dedup),
        Point, Choices, Node, Tree, Shape, Outer, Names, Vec<Point>, Option<Choices>, (Outer, u8),
        Vec<Shape>, BTreeMap<u8, Tree>, Vec<Outer>, (Point, Point),
        Streamed<u16>, Streamed<String>, Streamed<(u8, String)>, (Streamed<i64>, u8), Vec<Streamed<u32>>,
        Streamed<Point>, Vec<i8>, [i8; 3], LinkedList<i8>, Vec<u32>, BTreeSet<i8>,
        SliceOf<u16>, SliceOf<String>, SliceOf<u8>, SliceOf<i8>, SliceOf<Point>, StrOf, (StrOf, u8), RcSlice<u32>, RcSlice<u8>,
        SharedStrs, (SharedStrs, u8, SharedStrs), Vec<SharedStrs>, Option<(SharedStrs, String)>,
        Ticket, Vec<Ticket>, (Ticket, Dedup, Ticket), HashMap<u8, Dedup>, BTreeMap<u8, Dedup>, HashMap<String, Vec<Dedup>>,
        Tagged, Vec<Tagged>, (Tagged, Dedup, Tagged), Tagged2, Vec<Tagged2>, (Tagged2, Tagged, Dedup),
        Priority, Vec<Priority>, (Priority, u8),
        [u16; 64], [i8; 127], [(); 65], [String; 70], [bool; 100], Vec<[u16; 64]>,
        dup_a::Item, dup_b::Item, (dup_a::Item, dup_b::Item), dup_a::Kind, dup_b::Kind, Vec<dup_b::Kind>,
        std::marker::PhantomData<u32>, (u8, std::marker::PhantomData<String>, u8), Vec<std::marker::PhantomData<u8>>,
        Result<Result<u8, ()>, Option<char>>, LinkedList<(char, Duration)>, (Uuid, BigInt, BigDecimal), Vec<Dt<FixedOffset>>, Option<Dt<Tz>>, BTreeMap<NaiveDate, NaiveTime>,
        Big200, Vec<Big200>, (Big200, u8), Zipped, (Zipped, String), Vec<Zipped>, Archive, Vec<Archive>, (Archive, u8),
        Marker, (Marker, u8, Marker), Option<((),)>,
        Fragile, (String, Fragile), Vec<Fragile>, Brittle, Vec<Brittle>, (Brittle, Point),
    ];
    for e in entries.iter_mut() {
        if matches!(e.name, "Node" | "Tree" | "BTreeMap<u8, Tree>") {
            e.recursive = true;
        }
    }
    // ---- C12 matrix: every container of the family over every element type ------------------------
    let mut matrix: Vec<Vec<usize>> = Vec::new();
    macro_rules! seq_group {
        ($($e:ty),*) => {$({
            let en = stringify!($e).replace(' ', "");
            let mut g = Vec::new();
            macro_rules! add { ($t:ty, $n:expr) => {{
                let name: &'static str = Box::leak(format!("m.{}<{}>", $n, en).into_boxed_str());
                g.push(entries.len());
                entries.push(entry::<$t>(name, r));
            }}; }
            add!(Vec<$e>, "Vec");
            add!(LinkedList<$e>, "LinkedList");
            add!(BTreeSet<$e>, "BTreeSet");
            add!(HashSet<$e>, "HashSet");
            add!([$e; 0], "Array0");
            add!([$e; 2], "Array2");
            add!([$e; 3], "Array3");
            add!([$e; 70], "Array70");
            add!(Streamed<$e>, "Streamed");
            add!(SliceOf<$e>, "SliceOf");
            add!(RcSlice<$e>, "RcSlice");
            matrix.push(g);
        })*};
    }
    seq_group!(u16, String, i64, (u8, u16), i8, u32, bool, i16, char, u64, Option<u8>, (), i128, Uuid, (String, bool), Vec<u16>, BTreeSet<i8>,
        ((),), [u16; 0], Marker, ((), std::marker::PhantomData<u8>));
    macro_rules! pair_group {
        ($(($k:ty, $v:ty)),*) => {$({
            let en = format!("{},{}", stringify!($k), stringify!($v)).replace(' ', "");
            let mut g = Vec::new();
            macro_rules! add { ($t:ty, $n:expr) => {{
                let name: &'static str = Box::leak(format!("m.{}<{}>", $n, en).into_boxed_str());
                g.push(entries.len());
                entries.push(entry::<$t>(name, r));
            }}; }
            add!(Vec<($k, $v)>, "VecPairs");
            add!(LinkedList<($k, $v)>, "ListPairs");
            add!(BTreeMap<$k, $v>, "BTreeMap");
            add!(HashMap<$k, $v>, "HashMap");
            add!(Streamed<($k, $v)>, "StreamedPairs");
            add!(BTreeSet<($k, $v)>, "SetPairs");
            matrix.push(g);
        })*};
    }
    pair_group!((String, u32), (u8, String), (i8, i8), (u16, ()), (u8, Dedup), (String, Vec<Dedup>));
    {
        let mut g = Vec::new();
        macro_rules! add { ($t:ty, $n:expr) => {{
            g.push(entries.len());
            entries.push(entry::<$t>($n, r));
        }}; }
        add!(Vec<u8>, "m.Vec<u8>");
        add!(Bytes, "m.Bytes");
        add!([u8; 4], "m.Array4<u8>");
        add!([u8; 3], "m.Array3<u8>");
        add!([u8; 0], "m.Array0<u8>");
        add!(SliceOf<u8>, "m.SliceOf<u8>");
        add!(RcSlice<u8>, "m.RcSlice<u8>");
        matrix.push(g);
    }
    let builtins = entries.len();
    let (fe, fams, infos) = crate::families_gen::family_catalog(&mut reg);
    entries.extend(fe);
    // zero-sized sequence elements may also hide inside declarations
    for e in entries.iter_mut() {
        let mut seen = Vec::new();
        e.zero_sized_elems = zero_sized_inside(&reg, &e.ty, &mut seen);
    }
    Catalog { reg, entries, builtins, fams, infos, matrix }
}
