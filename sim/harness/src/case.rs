//! A *case* is the unit a verdict is about: one library call (or a short fixed sequence of calls)
//! on concrete bytes, with the oracle clause that applies. Engines produce cases from simulated
//! worlds; a violation carries its case, so a replay file does not depend on anything but the
//! code under test.

use crate::catalog::{remaining, Catalog, Entry};
use crate::exec::{contain, heap_budget, tick_budget, Meter, Outcome};
use desert::DeserializationContext;
use model::dec::{ref_decode, Why};
use model::ty::Val;
use model::{hex, unhex};
use serde_json::{json, Value};

#[derive(Clone, Debug)]
pub struct Case {
    pub prop: String,
    /// oracle clause: total | no-invention | self-delimiting | batch | truncation
    pub clause: String,
    /// catalogue entry the bytes are decoded as
    pub read_as: String,
    pub input: Vec<u8>,
    /// self-delimiting: length of the valid encoding at the start of `input`
    pub enc_len: usize,
    /// self-delimiting: the value that was written (Debug rendering of the reference value)
    pub expected: Option<String>,
    /// script: catalogue entries decoded one after another through one context, each with its
    /// expectation: `ok:<value>` | `err` | `err:<substring of the error>` | `any`
    pub batch: Vec<(String, String)>,
    /// script: mismatches of items before this index are not this property's business
    pub judge_from: usize,
    /// script: also require that exactly `input.len() - enc_len` bytes are left afterwards
    pub check_rem: bool,
    /// what the simulator did to the bytes
    pub fault: String,
    pub fault_kind: String,
}

impl Case {
    pub fn new(prop: &str, clause: &str, read_as: &str, input: Vec<u8>) -> Self {
        Case {
            prop: prop.into(),
            clause: clause.into(),
            read_as: read_as.into(),
            input,
            enc_len: 0,
            expected: None,
            batch: vec![],
            judge_from: 0,
            check_rem: true,
            fault: String::new(),
            fault_kind: "none".into(),
        }
    }

    pub fn to_json(&self) -> Value {
        json!({
            "property": self.prop,
            "clause": self.clause,
            "read_as": self.read_as,
            "input_hex": hex(&self.input),
            "enc_len": self.enc_len,
            "expected": self.expected,
            "batch": self.batch.iter().map(|(n, v)| json!([n, v])).collect::<Vec<_>>(),
            "judge_from": self.judge_from,
            "check_rem": self.check_rem,
            "fault": self.fault,
            "fault_kind": self.fault_kind,
        })
    }

    pub fn from_json(v: &Value) -> Case {
        Case {
            prop: v["property"].as_str().unwrap().into(),
            clause: v["clause"].as_str().unwrap().into(),
            read_as: v["read_as"].as_str().unwrap().into(),
            input: unhex(v["input_hex"].as_str().unwrap()),
            enc_len: v["enc_len"].as_u64().unwrap_or(0) as usize,
            expected: v["expected"].as_str().map(|s| s.to_string()),
            batch: v["batch"]
                .as_array()
                .map(|a| {
                    a.iter()
                        .map(|x| (x[0].as_str().unwrap().to_string(), x[1].as_str().unwrap().to_string()))
                        .collect()
                })
                .unwrap_or_default(),
            judge_from: v["judge_from"].as_u64().unwrap_or(0) as usize,
            check_rem: v["check_rem"].as_bool().unwrap_or(true),
            fault: v["fault"].as_str().unwrap_or("").into(),
            fault_kind: v["fault_kind"].as_str().unwrap_or("none").into(),
        }
    }
}

#[derive(Clone, Debug)]
pub struct Finding {
    /// short class used in fingerprints: panic | hang | alloc | invented | value | consumed | accepted | rejected
    pub class: String,
    pub detail: String,
}

pub struct Evaluated {
    pub finding: Option<Finding>,
    pub outcome: &'static str,
    pub meter: Meter,
}

pub fn real_decode(e: &Entry, input: &[u8]) -> (Outcome<(Val, usize)>, Meter) {
    let f = e.decode_in;
    contain(tick_budget(input.len()), || {
        let mut ctx = DeserializationContext::new(input);
        let v = f(&mut ctx)?;
        let rem = remaining(&mut ctx);
        Ok((v, rem))
    })
}

/// with `--trace-cases` every case is written out (and flushed) before it is evaluated, so that the
/// supervisor can attribute a worker death to the case in flight
pub static CASE_LOG: std::sync::Mutex<Option<std::fs::File>> = std::sync::Mutex::new(None);

pub fn eval(cat: &Catalog, case: &Case) -> Evaluated {
    if let Ok(mut g) = CASE_LOG.lock() {
        if let Some(f) = g.as_mut() {
            use std::io::Write;
            let _ = writeln!(f, "{}", case.to_json());
            let _ = f.flush();
        }
    }
    match case.clause.as_str() {
        "sinks" => return crate::seams::eval_sinks(cat, case),
        "sinks-history" => return crate::seams::eval_sinks_history(cat, case),
        "prim-roundtrip" => return crate::seams::eval_prim_roundtrip(case),
        "sources" | "eof-reject" => return crate::seams::eval_sources(case),
        "zip-roundtrip" => return crate::zip::eval_roundtrip(case),
        "zip-truncation" | "zip-damaged" => return crate::zip::eval_damaged(case),
        "batch" | "script" => return eval_script(cat, case),
        _ => {}
    }
    let e = cat.by_name(&case.read_as).unwrap_or_else(|| panic!("unknown catalogue entry {}", case.read_as));
    match case.clause.as_str() {
        "total" => {
            let (out, meter) = real_decode(e, &case.input);
            let finding = match &out {
                Outcome::Panic(m) => Some(Finding { class: "panic".into(), detail: m.clone() }),
                // N zero-sized elements encode in O(log N) bytes, so no decoder can consume input
                // per iteration for such targets; they are held to the step budget only where the
                // format rejects the bytes (DESIGN 9.2)
                Outcome::Hang if e.zero_sized_elems && {
                    // held to the budget only if the format rejects the bytes without a long loop
                    let (r, steps) = model::dec::ref_decode_metered(&cat.reg, &e.ty, &case.input);
                    r.is_ok() || steps > (1 << 16)
                } =>
                {
                    None
                }
                Outcome::Hang => Some(Finding {
                    class: "hang".into(),
                    detail: format!("more than {} steps for {} input bytes", tick_budget(case.input.len()), case.input.len()),
                }),
                _ => {
                    let b = heap_budget(case.input.len());
                    // N zero-sized elements encode in O(log N) bytes but a node-based container still
                    // allocates per element: the same exemption as for the step budget (DESIGN 9.2)
                    let exempt = e.zero_sized_elems && (meter.mem.peak > b || meter.mem.largest > b) && {
                        let (_, steps) = model::dec::ref_decode_metered(&cat.reg, &e.ty, &case.input);
                        steps > (1 << 12)
                    };
                    if !exempt && (meter.mem.peak > b || meter.mem.largest > b) {
                        Some(Finding {
                            class: "alloc".into(),
                            detail: format!(
                                "peak {} / largest request {} bytes for {} input bytes (budget {})",
                                meter.mem.peak,
                                meter.mem.largest,
                                case.input.len(),
                                b
                            ),
                        })
                    } else {
                        None
                    }
                }
            };
            Evaluated { finding, outcome: out.class(), meter }
        }
        "no-invention" => {
            let (out, meter) = real_decode(e, &case.input);
            let finding = if let Outcome::Ok((v, _)) = &out {
                match ref_decode(&cat.reg, &e.ty, &case.input) {
                    Ok(d) if d.val == *v => None,
                    Ok(d) => Some(Finding {
                        class: "invented".into(),
                        detail: format!("library Ok({}) but the format assigns {}", v.brief(), d.val.brief()),
                    }),
                    Err(Why::ModelFuel) => None,
                    Err(why) => Some(Finding {
                        class: "invented".into(),
                        detail: format!("library Ok({}) but the format rejects the bytes: {why:?}", v.brief()),
                    }),
                }
            } else {
                None
            };
            Evaluated { finding, outcome: out.class(), meter }
        }
        "self-delimiting" => {
            let exp = case.expected.as_deref().expect("self-delimiting case without expected value");
            let (out, meter) = real_decode(e, &case.input);
            let want_rem = case.input.len() - case.enc_len;
            let finding = match &out {
                Outcome::Ok((v, rem)) => {
                    if format!("{v:?}") != exp {
                        Some(Finding {
                            class: "value".into(),
                            detail: format!("decoded {} instead of {}", v.brief(), brief(exp)),
                        })
                    } else if *rem != want_rem {
                        Some(Finding {
                            class: "consumed".into(),
                            detail: format!(
                                "{} bytes left unread instead of {} (encoding is {} of {} bytes)",
                                rem,
                                want_rem,
                                case.enc_len,
                                case.input.len()
                            ),
                        })
                    } else {
                        None
                    }
                }
                Outcome::Err(m) => Some(Finding { class: "rejected".into(), detail: format!("valid encoding rejected: {m}") }),
                Outcome::Panic(m) => Some(Finding { class: "panic".into(), detail: m.clone() }),
                Outcome::Hang => Some(Finding { class: "hang".into(), detail: "step budget exhausted".into() }),
            };
            Evaluated { finding, outcome: out.class(), meter }
        }
        "ctor-index" => {
            // bytes written by the real encoder: version byte 0, then the unsigned varint of the
            // constructor's rank in the writer's index order
            let want: u32 = case.expected.as_deref().unwrap().parse().unwrap();
            let b = &case.input;
            let mut got: Option<u32> = None;
            if b.first() == Some(&0) {
                let mut r: u32 = 0;
                for (i, x) in b[1..].iter().take(5).enumerate() {
                    r |= ((*x & 0x7f) as u32).wrapping_shl(7 * i as u32);
                    if x & 0x80 == 0 {
                        got = Some(r);
                        break;
                    }
                }
            }
            let finding = if got != Some(want) {
                Some(Finding {
                    class: "index".into(),
                    detail: format!("encoded enum starts with {} instead of version 0 and constructor rank {want}", hex(&b[..b.len().min(6)])),
                })
            } else {
                // ... followed by that constructor's own record and nothing else: the format's
                // decoder for this very declaration accepts the bytes and uses all of them
                match ref_decode(&cat.reg, &e.ty, b) {
                    Ok(d) if d.consumed == b.len() => None,
                    Ok(d) => Some(Finding {
                        class: "index".into(),
                        detail: format!("the constructor's record ends after {} of the {} bytes written", d.consumed, b.len()),
                    }),
                    Err(w) => Some(Finding {
                        class: "index".into(),
                        detail: format!("what follows the index is not the constructor's record: {w:?} ({})", hex(&b[..b.len().min(12)])),
                    }),
                }
            };
            Evaluated { finding, outcome: "ok", meter: Meter::default() }
        }
        "truncation" => {
            let (out, meter) = real_decode(e, &case.input);
            let finding = match &out {
                Outcome::Err(_) => None,
                Outcome::Ok((v, _)) => Some(Finding {
                    class: "accepted".into(),
                    detail: format!("strict prefix of {} bytes decoded to {}", case.input.len(), v.brief()),
                }),
                Outcome::Panic(m) => Some(Finding { class: "panic".into(), detail: m.clone() }),
                Outcome::Hang => Some(Finding { class: "hang".into(), detail: "step budget exhausted".into() }),
            };
            Evaluated { finding, outcome: out.class(), meter }
        }
        other => panic!("unknown clause {other}"),
    }
}

pub fn brief(s: &str) -> String {
    if s.len() > 160 {
        format!("{}…", &s[..s.char_indices().take(160).last().map(|x| x.0).unwrap_or(0)])
    } else {
        s.to_string()
    }
}

/// values written one after another into one stream are read back one after another through one
/// context; each item has its own expectation
fn eval_script(cat: &Catalog, case: &Case) -> Evaluated {
    let fs: Vec<_> = case
        .batch
        .iter()
        .map(|(n, _)| cat.by_name(n).unwrap_or_else(|| panic!("unknown catalogue entry {n}")).decode_in)
        .collect();
    let input = &case.input;
    // results of the items up to and including the first failing one
    let (out, meter) = contain(tick_budget(input.len()), || {
        let mut ctx = DeserializationContext::new(input);
        let mut results: Vec<Result<Val, String>> = Vec::new();
        for f in &fs {
            match f(&mut ctx) {
                Ok(v) => results.push(Ok(v)),
                Err(e) => {
                    results.push(Err(format!("{e:?}")));
                    return Ok((results, None));
                }
            }
        }
        let rem = remaining(&mut ctx);
        Ok((results, Some(rem)))
    });
    let finding = match &out {
        Outcome::Ok((results, rem)) => {
            let mut f = None;
            let mut stopped = false;
            for (i, r) in results.iter().enumerate() {
                let (name, expect) = &case.batch[i];
                let judged = i >= case.judge_from;
                match (r, expect.as_str()) {
                    (_, "any") => {}
                    (Ok(v), e) if e.starts_with("ok:") => {
                        if judged && format!("{v:?}") != e[3..] {
                            f = Some(Finding {
                                class: "value".into(),
                                detail: format!("item {i} ({name}) decoded {} instead of {}", v.brief(), brief(&e[3..])),
                            });
                            break;
                        }
                    }
                    (Ok(v), _) => {
                        if judged {
                            f = Some(Finding {
                                class: "accepted".into(),
                                detail: format!("item {i} ({name}) decoded {} where {} is the documented outcome", v.brief(), expect),
                            });
                        }
                        stopped = true;
                        break;
                    }
                    (Err(m), e) if e.starts_with("ok:") => {
                        if judged {
                            f = Some(Finding {
                                class: "rejected".into(),
                                detail: format!("item {i} ({name}) failed with {m} instead of decoding {}", brief(&e[3..])),
                            });
                        }
                        stopped = true;
                        break;
                    }
                    (Err(m), e) => {
                        if judged && e.starts_with("err:") && !m.contains(&e[4..]) {
                            f = Some(Finding {
                                class: "wrong-error".into(),
                                detail: format!("item {i} ({name}) failed with {m}, documented error is {}", &e[4..]),
                            });
                        }
                        stopped = true;
                        break;
                    }
                }
            }
            if f.is_none() && !stopped && case.check_rem {
                if let Some(rem) = rem {
                    let want = input.len() - case.enc_len;
                    if *rem != want {
                        f = Some(Finding {
                            class: "consumed".into(),
                            detail: format!("{rem} bytes left unread instead of {want}"),
                        });
                    }
                }
            }
            f
        }
        Outcome::Err(m) => Some(Finding { class: "harness".into(), detail: m.clone() }),
        Outcome::Panic(m) => Some(Finding { class: "panic".into(), detail: m.clone() }),
        Outcome::Hang => Some(Finding { class: "hang".into(), detail: "step budget exhausted".into() }),
    };
    Evaluated { finding, outcome: out.class(), meter }
}

#[derive(Clone, Debug)]
pub struct Violation {
    pub case: Case,
    pub finding: Finding,
    pub run_seed: u64,
    pub trace: Vec<String>,
}

impl Violation {
    pub fn fingerprint(&self) -> String {
        format!(
            "{}|{}|{}|{}|{}",
            self.case.prop, self.case.clause, self.finding.class, self.case.read_as, self.case.fault_kind
        )
    }
    pub fn to_json(&self) -> Value {
        let mut v = self.case.to_json();
        let o = v.as_object_mut().unwrap();
        o.insert("class".into(), json!(self.finding.class));
        o.insert("detail".into(), json!(self.finding.detail));
        o.insert("run_seed".into(), json!(self.run_seed.to_string()));
        o.insert("trace".into(), json!(self.trace));
        o.insert("fingerprint".into(), json!(self.fingerprint()));
        v
    }
}
