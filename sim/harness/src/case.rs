//! A *case* is the unit a verdict is about: one library call (or a short fixed sequence of calls)
//! on concrete bytes, with the oracle clause that applies. Engines produce cases from simulated
//! worlds; a violation carries its case, so a replay file does not depend on anything but the
//! code under test.

use crate::catalog::{remaining, Catalog, Entry};
use crate::exec::{contain, heap_budget, tick_budget, Meter, Outcome};
use desert::DeserializationContext;
use model::dec::{ref_decode, Why};
use model::ty::Val;
use model::{hex, unhex};
use serde_json::{json, Value};

#[derive(Clone, Debug)]
pub struct Case {
    pub prop: String,
    /// oracle clause: total | no-invention | self-delimiting | batch | truncation
    pub clause: String,
    /// catalogue entry the bytes are decoded as
    pub read_as: String,
    pub input: Vec<u8>,
    /// self-delimiting: length of the valid encoding at the start of `input`
    pub enc_len: usize,
    /// self-delimiting: the value that was written
    pub expected: Option<Val>,
    /// batch: values written back to back, read back through one context
    pub batch: Vec<(String, Val)>,
    /// what the simulator did to the bytes
    pub fault: String,
    pub fault_kind: String,
}

impl Case {
    pub fn new(prop: &str, clause: &str, read_as: &str, input: Vec<u8>) -> Self {
        Case {
            prop: prop.into(),
            clause: clause.into(),
            read_as: read_as.into(),
            input,
            enc_len: 0,
            expected: None,
            batch: vec![],
            fault: String::new(),
            fault_kind: "none".into(),
        }
    }

    pub fn to_json(&self) -> Value {
        json!({
            "property": self.prop,
            "clause": self.clause,
            "read_as": self.read_as,
            "input_hex": hex(&self.input),
            "enc_len": self.enc_len,
            "expected": self.expected.as_ref().map(|v| format!("{v:?}")),
            "batch": self.batch.iter().map(|(n, v)| json!([n, format!("{v:?}")])).collect::<Vec<_>>(),
            "fault": self.fault,
            "fault_kind": self.fault_kind,
        })
    }

    pub fn from_json(v: &Value) -> Case {
        Case {
            prop: v["property"].as_str().unwrap().into(),
            clause: v["clause"].as_str().unwrap().into(),
            read_as: v["read_as"].as_str().unwrap().into(),
            input: unhex(v["input_hex"].as_str().unwrap()),
            enc_len: v["enc_len"].as_u64().unwrap_or(0) as usize,
            // expected values are compared through their Debug rendering on replay
            expected: None,
            batch: vec![],
            fault: v["fault"].as_str().unwrap_or("").into(),
            fault_kind: v["fault_kind"].as_str().unwrap_or("none").into(),
        }
    }
}

#[derive(Clone, Debug)]
pub struct Finding {
    /// short class used in fingerprints: panic | hang | alloc | invented | value | consumed | accepted | rejected
    pub class: String,
    pub detail: String,
}

pub struct Evaluated {
    pub finding: Option<Finding>,
    pub outcome: &'static str,
    pub meter: Meter,
}

pub fn real_decode(e: &Entry, input: &[u8]) -> (Outcome<(Val, usize)>, Meter) {
    let f = e.decode_in;
    contain(tick_budget(input.len()), || {
        let mut ctx = DeserializationContext::new(input);
        let v = f(&mut ctx)?;
        let rem = remaining(&mut ctx);
        Ok((v, rem))
    })
}

/// expected values in replay files are Debug strings; in live runs they are `Val`s
pub enum Expect<'a> {
    Val(&'a Val),
    Text(&'a str),
}
impl Expect<'_> {
    fn matches(&self, v: &Val) -> bool {
        match self {
            Expect::Val(x) => *x == v,
            Expect::Text(s) => format!("{v:?}") == *s,
        }
    }
    fn show(&self) -> String {
        match self {
            Expect::Val(x) => x.brief(),
            Expect::Text(s) => s.to_string(),
        }
    }
}

/// with `--trace-cases` every case is written out (and flushed) before it is evaluated, so that the
/// supervisor can attribute a worker death to the case in flight
pub static CASE_LOG: std::sync::Mutex<Option<std::fs::File>> = std::sync::Mutex::new(None);

pub fn eval(cat: &Catalog, case: &Case, expected_text: Option<&str>, batch_text: &[(String, String)]) -> Evaluated {
    if let Ok(mut g) = CASE_LOG.lock() {
        if let Some(f) = g.as_mut() {
            use std::io::Write;
            let _ = writeln!(f, "{}", case.to_json());
            let _ = f.flush();
        }
    }
    let e = cat.by_name(&case.read_as).unwrap_or_else(|| panic!("unknown catalogue entry {}", case.read_as));
    match case.clause.as_str() {
        "total" => {
            let (out, meter) = real_decode(e, &case.input);
            let finding = match &out {
                Outcome::Panic(m) => Some(Finding { class: "panic".into(), detail: m.clone() }),
                // N zero-sized elements encode in O(log N) bytes, so no decoder can consume input
                // per iteration for such targets; they are held to the step budget only where the
                // format rejects the bytes (DESIGN 9.2)
                Outcome::Hang
                    if e.zero_sized_elems && !matches!(ref_decode(&cat.reg, &e.ty, &case.input), Err(w) if w != Why::ModelFuel) =>
                {
                    None
                }
                Outcome::Hang => Some(Finding {
                    class: "hang".into(),
                    detail: format!("more than {} steps for {} input bytes", tick_budget(case.input.len()), case.input.len()),
                }),
                _ => {
                    let b = heap_budget(case.input.len());
                    if meter.mem.peak > b || meter.mem.largest > b {
                        Some(Finding {
                            class: "alloc".into(),
                            detail: format!(
                                "peak {} / largest request {} bytes for {} input bytes (budget {})",
                                meter.mem.peak,
                                meter.mem.largest,
                                case.input.len(),
                                b
                            ),
                        })
                    } else {
                        None
                    }
                }
            };
            Evaluated { finding, outcome: out.class(), meter }
        }
        "no-invention" => {
            let (out, meter) = real_decode(e, &case.input);
            let finding = if let Outcome::Ok((v, _)) = &out {
                match ref_decode(&cat.reg, &e.ty, &case.input) {
                    Ok(d) if d.val == *v => None,
                    Ok(d) => Some(Finding {
                        class: "invented".into(),
                        detail: format!("library Ok({}) but the format assigns {}", v.brief(), d.val.brief()),
                    }),
                    Err(Why::ModelFuel) => None,
                    Err(why) => Some(Finding {
                        class: "invented".into(),
                        detail: format!("library Ok({}) but the format rejects the bytes: {why:?}", v.brief()),
                    }),
                }
            } else {
                None
            };
            Evaluated { finding, outcome: out.class(), meter }
        }
        "self-delimiting" => {
            let exp = match (&case.expected, expected_text) {
                (Some(v), _) => Expect::Val(v),
                (None, Some(t)) => Expect::Text(t),
                _ => panic!("self-delimiting case without expected value"),
            };
            let (out, meter) = real_decode(e, &case.input);
            let want_rem = case.input.len() - case.enc_len;
            let finding = match &out {
                Outcome::Ok((v, rem)) => {
                    if !exp.matches(v) {
                        Some(Finding {
                            class: "value".into(),
                            detail: format!("decoded {} instead of {}", v.brief(), exp.show()),
                        })
                    } else if *rem != want_rem {
                        Some(Finding {
                            class: "consumed".into(),
                            detail: format!(
                                "{} bytes left unread instead of {} (encoding is {} of {} bytes)",
                                rem,
                                want_rem,
                                case.enc_len,
                                case.input.len()
                            ),
                        })
                    } else {
                        None
                    }
                }
                Outcome::Err(m) => Some(Finding { class: "rejected".into(), detail: format!("valid encoding rejected: {m}") }),
                Outcome::Panic(m) => Some(Finding { class: "panic".into(), detail: m.clone() }),
                Outcome::Hang => Some(Finding { class: "hang".into(), detail: "step budget exhausted".into() }),
            };
            Evaluated { finding, outcome: out.class(), meter }
        }
        "batch" => {
            // values written one after another are read back one after another through one context
            let names: Vec<String> = if case.batch.is_empty() {
                batch_text.iter().map(|x| x.0.clone()).collect()
            } else {
                case.batch.iter().map(|x| x.0.clone()).collect()
            };
            let fs: Vec<_> = names.iter().map(|n| cat.by_name(n).unwrap().decode_in).collect();
            let (out, meter) = contain(tick_budget(case.input.len()), || {
                let mut ctx = DeserializationContext::new(&case.input);
                let mut vals = Vec::new();
                for f in &fs {
                    vals.push(f(&mut ctx)?);
                }
                let rem = remaining(&mut ctx);
                Ok((vals, rem))
            });
            let finding = match &out {
                Outcome::Ok((vals, rem)) => {
                    let mut f = None;
                    for (i, v) in vals.iter().enumerate() {
                        let ok = if case.batch.is_empty() {
                            format!("{v:?}") == batch_text[i].1
                        } else {
                            *v == case.batch[i].1
                        };
                        if !ok {
                            f = Some(Finding {
                                class: "value".into(),
                                detail: format!("item {i} ({}) decoded {}", names[i], v.brief()),
                            });
                            break;
                        }
                    }
                    if f.is_none() && *rem != case.input.len() - case.enc_len {
                        f = Some(Finding {
                            class: "consumed".into(),
                            detail: format!("{rem} bytes left instead of {}", case.input.len() - case.enc_len),
                        });
                    }
                    f
                }
                Outcome::Err(m) => Some(Finding { class: "rejected".into(), detail: format!("valid batch rejected: {m}") }),
                Outcome::Panic(m) => Some(Finding { class: "panic".into(), detail: m.clone() }),
                Outcome::Hang => Some(Finding { class: "hang".into(), detail: "step budget exhausted".into() }),
            };
            Evaluated { finding, outcome: out.class(), meter }
        }
        "truncation" => {
            let (out, meter) = real_decode(e, &case.input);
            let finding = match &out {
                Outcome::Err(_) => None,
                Outcome::Ok((v, _)) => Some(Finding {
                    class: "accepted".into(),
                    detail: format!("strict prefix of {} bytes decoded to {}", case.input.len(), v.brief()),
                }),
                Outcome::Panic(m) => Some(Finding { class: "panic".into(), detail: m.clone() }),
                Outcome::Hang => Some(Finding { class: "hang".into(), detail: "step budget exhausted".into() }),
            };
            Evaluated { finding, outcome: out.class(), meter }
        }
        other => panic!("unknown clause {other}"),
    }
}

#[derive(Clone, Debug)]
pub struct Violation {
    pub case: Case,
    pub finding: Finding,
    pub run_seed: u64,
    pub trace: Vec<String>,
}

impl Violation {
    pub fn fingerprint(&self) -> String {
        format!(
            "{}|{}|{}|{}|{}",
            self.case.prop, self.case.clause, self.finding.class, self.case.read_as, self.case.fault_kind
        )
    }
    pub fn to_json(&self) -> Value {
        let mut v = self.case.to_json();
        let o = v.as_object_mut().unwrap();
        o.insert("class".into(), json!(self.finding.class));
        o.insert("detail".into(), json!(self.finding.detail));
        o.insert("run_seed".into(), json!(self.run_seed.to_string()));
        o.insert("trace".into(), json!(self.trace));
        o.insert("fingerprint".into(), json!(self.fingerprint()));
        v
    }
}
