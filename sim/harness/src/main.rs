//! `sim`: worker binary of the deterministic simulator. The supervisor (../../check) spawns
//! workers over contiguous blocks of run indices, merges their statistics, minimises and reports.

mod alloc;
mod bridge;
mod case;
mod catalog;
mod enumg;
mod exec;
mod families_gen;
mod seams;
mod skew;
mod zip;
mod stats;
mod wal;

use case::{eval, Case, Violation};
use model::rng::run_seed;
use serde_json::{json, Value};
use std::collections::BTreeMap;

#[global_allocator]
static GLOBAL: alloc::Acct = alloc::Acct;

fn arg(args: &[String], name: &str) -> Option<String> {
    args.iter().position(|a| a == name).and_then(|i| args.get(i + 1).cloned())
}

fn profile() -> &'static str {
    if cfg!(debug_assertions) {
        "verifdev"
    } else {
        "release"
    }
}

fn main() {
    let args: Vec<String> = std::env::args().collect();
    // chrono's Local must not depend on the host
    std::env::set_var("TZ", "UTC");
    exec::install_panic_hook();
    let t = std::thread::Builder::new()
        .stack_size(512 << 20)
        .spawn(move || match exec::contain_plain(|| real_main(args)) {
            Ok(c) => c,
            Err(m) => {
                eprintln!("harness panic: {m}");
                2
            }
        })
        .unwrap();
    let code = t.join().unwrap_or(2);
    std::process::exit(code);
}

fn real_main(args: Vec<String>) -> i32 {
    let cmd = args.get(1).map(|s| s.as_str()).unwrap_or("");
    match cmd {
        "run" => cmd_run(&args),
        "replay" => cmd_replay(&args),
        "find" => cmd_find(&args),
        "minimise" => cmd_minimise(&args),
        "merge-hashes" => cmd_merge(&args),
        "selfcheck" => cmd_selfcheck(),
        "enum-blocks" => {
            println!("{}", enumg::blocks(args[2].parse().unwrap()));
            0
        }
        "list" => {
            let cat = catalog::builtin_catalog();
            for e in &cat.entries {
                println!("{}", e.name);
            }
            0
        }
        _ => {
            eprintln!("usage: sim run|replay|minimise|merge-hashes|selfcheck|list");
            2
        }
    }
}

fn engine_label(engine: &str, focus: &str) -> String {
    format!("{engine}/{focus}")
}

fn cmd_run(args: &[String]) -> i32 {
    let engine = arg(args, "--engine").unwrap();
    let focus = arg(args, "--focus").unwrap();
    let seed: u64 = arg(args, "--seed").unwrap().parse().unwrap();
    let from: u64 = arg(args, "--from").unwrap().parse().unwrap();
    let to: u64 = arg(args, "--to").unwrap().parse().unwrap();
    let out = arg(args, "--out").unwrap();
    let trace_cases = args.iter().any(|a| a == "--trace-cases");
    if trace_cases {
        *case::CASE_LOG.lock().unwrap() = Some(std::fs::File::create(format!("{out}.cases")).unwrap());
    }
    let cat = catalog::builtin_catalog();
    let mut stats = stats::Stats::default();
    let mut violations: Vec<Violation> = Vec::new();
    let mut seen: BTreeMap<String, u64> = BTreeMap::new();
    let mut progress = std::fs::File::create(format!("{out}.progress")).unwrap();
    let label = engine_label(&engine, &focus);
    let started = std::time::Instant::now();
    for idx in from..to {
        {
            use std::os::unix::fs::FileExt;
            let _ = progress.write_at(format!("{idx:020}\n").as_bytes(), 0);
        }
        let rs = if engine == "enum" { idx } else { run_seed(seed, &label, idx) };
        stats.run_acc = rs;
        let vs = match run_one(&cat, &engine, &focus, rs, args, &mut stats) {
            Some(v) => v,
            None => {
                eprintln!("unknown engine {engine}");
                return 2;
            }
        };
        for v in &vs {
            stats.note(model::rng::fnv(v.fingerprint().as_bytes()));
        }
        stats.log_digest = stats.log_digest.wrapping_add(stats.run_acc);
        for v in vs {
            let n = seen.entry(v.fingerprint()).or_insert(0);
            *n += 1;
            // keep the first (and the shortest) witness per fingerprint
            if *n == 1 {
                violations.push(v);
            } else if let Some(old) = violations.iter_mut().find(|o| o.fingerprint() == v.fingerprint()) {
                if v.case.input.len() < old.case.input.len() {
                    *old = v;
                }
            }
        }
    }
    let wall = started.elapsed().as_secs_f64();
    let mut j = stats.to_json();
    let o = j.as_object_mut().unwrap();
    o.remove("distinct");
    o.insert("profile".into(), json!(profile()));
    o.insert("engine".into(), json!(engine));
    o.insert("focus".into(), json!(focus));
    o.insert("seed".into(), json!(seed));
    o.insert("from".into(), json!(from));
    o.insert("to".into(), json!(to));
    o.insert("wall_s".into(), json!(wall));
    o.insert(
        "violations".into(),
        Value::Array(
            violations
                .iter()
                .map(|v| {
                    let mut j = v.to_json();
                    j["engine"] = json!(engine);
                    j
                })
                .collect(),
        ),
    );
    o.insert("violation_counts".into(), json!(seen));
    std::fs::write(&out, serde_json::to_vec_pretty(&j).unwrap()).unwrap();
    let mut hb = Vec::with_capacity(stats.distinct.len() * 8);
    for h in &stats.distinct {
        hb.extend_from_slice(&h.to_le_bytes());
    }
    std::fs::write(format!("{out}.hashes"), hb).unwrap();
    let _ = std::fs::remove_file(format!("{out}.progress"));
    0
}

/// one simulated run: a pure function of (engine, focus, run seed, caps) and the code under test
fn run_one(
    cat: &catalog::Catalog,
    engine: &str,
    focus: &str,
    rs: u64,
    args: &[String],
    stats: &mut stats::Stats,
) -> Option<Vec<Violation>> {
    Some(match engine {
        "wal" => {
            let cfg = wal::Config {
                focus: focus.to_string(),
                max_buf: 64 << 10,
                enumerate_cuts: true,
                unordered: !args.iter().any(|a| a == "--no-unordered"),
            };
            wal::run(cat, &cfg, stats, rs)
        }
        "skew" => {
            let cfg = skew::Config {
                focus: focus.to_string(),
                size_cap: arg(args, "--size-cap").map(|x| x.parse().unwrap()).unwrap_or(usize::MAX),
                event_cap: arg(args, "--event-cap").map(|x| x.parse().unwrap()).unwrap_or(usize::MAX),
                unordered: !args.iter().any(|a| a == "--no-unordered"),
            };
            skew::run(cat, &cfg, stats, rs)
        }
        "seams" => seams::run(cat, &seams::Config { focus: focus.to_string() }, stats, rs),
        "enum" => {
            let max_len = arg(args, "--max-len").map(|x| x.parse().unwrap()).unwrap_or(2);
            let skip_matrix = args.iter().any(|a| a == "--skip-matrix");
            enumg::run(cat, &enumg::Config { max_len, skip_matrix }, stats, rs)
        }
        "zip" => {
            let max_len = arg(args, "--max-len").map(|x| x.parse().unwrap()).unwrap_or(16 << 10);
            let big_len = arg(args, "--big-len").map(|x| x.parse().unwrap()).unwrap_or(192 << 10);
            zip::run(&zip::Config { focus: focus.to_string(), max_len, big_len }, stats, rs, cat)
        }
        _ => return None,
    })
}

fn load_case(path: &str) -> (Value, Case) {
    let text = std::fs::read_to_string(path).unwrap_or_else(|e| {
        eprintln!("cannot read {path}: {e}");
        std::process::exit(2)
    });
    let v: Value = serde_json::from_str(&text).unwrap();
    let c = Case::from_json(&v);
    (v, c)
}

/// exit 1 + VIOLATION line if the case in the file still violates its clause, 0 otherwise
fn cmd_replay(args: &[String]) -> i32 {
    let path = args.get(2).expect("replay <file>");
    let (v, c) = load_case(path);
    let cat = catalog::builtin_catalog();
    // 1. the recorded case itself
    let finding = if c.clause == "encode" { None } else { eval(&cat, &c).finding };
    let writer_involved = matches!(
        c.clause.as_str(),
        "self-delimiting" | "batch" | "script" | "ctor-index" | "sinks" | "sinks-history" | "zip-roundtrip" | "encode"
    );
    if finding.is_none() && c.clause != "encode" {
        println!("not reproduced: property={} clause={} type={}", c.prop, c.clause, c.read_as);
        return 0;
    }
    // 2. cases whose bytes came from the writer are only reproduced if the same simulated run still
    //    produces the violation (otherwise a repaired writer would be blamed for stale bytes)
    if writer_involved {
        let (Some(engine), Some(rs)) = (v["engine"].as_str(), v["run_seed"].as_str().and_then(|s| s.parse::<u64>().ok())) else {
            println!("reproduced (recorded case only; no run seed in the file)");
            println!("VIOLATION property={} replay={}", c.prop, path);
            return 1;
        };
        let fp = v["fingerprint"].as_str().unwrap_or("");
        let mut stats = stats::Stats::default();
        // caps recorded by the minimiser
        let mut rargs: Vec<String> = args.to_vec();
        for (k, flag) in [("size_cap", "--size-cap"), ("event_cap", "--event-cap")] {
            if let Some(x) = v[k].as_str() {
                rargs.push(flag.to_string());
                rargs.push(x.to_string());
            }
        }
        let vs = run_one(&cat, engine, &c.prop, rs, &rargs, &mut stats).unwrap_or_default();
        match vs.iter().find(|x| x.fingerprint() == fp) {
            Some(x) => {
                println!("reproduced: run seed {rs} of engine {engine} again gives {} : {}", fp, x.finding.detail);
                println!("VIOLATION property={} replay={}", c.prop, path);
                1
            }
            None => {
                println!("not reproduced: run seed {rs} of engine {engine} no longer produces {fp}");
                0
            }
        }
    } else {
        let f = finding.unwrap();
        println!("reproduced: property={} clause={} class={} type={} : {}", c.prop, c.clause, f.class, c.read_as, f.detail);
        println!("VIOLATION property={} replay={}", c.prop, path);
        1
    }
}

/// re-runs one run seed (with caps on value size and event count) and writes the violation with the
/// given fingerprint, if it still occurs: the supervisor uses it to shrink skew worlds
fn cmd_find(args: &[String]) -> i32 {
    let engine = arg(args, "--engine").unwrap();
    let focus = arg(args, "--focus").unwrap();
    let rs: u64 = arg(args, "--run-seed").unwrap().parse().unwrap();
    let fp = arg(args, "--fingerprint").unwrap();
    let out = arg(args, "--out").unwrap();
    let cat = catalog::builtin_catalog();
    let mut stats = stats::Stats::default();
    let vs = run_one(&cat, &engine, &focus, rs, args, &mut stats).unwrap_or_default();
    match vs.iter().filter(|v| v.fingerprint() == fp).min_by_key(|v| v.case.input.len()) {
        Some(v) => {
            let mut j = v.to_json();
            j["engine"] = json!(engine);
            if let Some(c) = arg(args, "--size-cap") {
                j["size_cap"] = json!(c);
            }
            if let Some(c) = arg(args, "--event-cap") {
                j["event_cap"] = json!(c);
            }
            std::fs::write(out, serde_json::to_vec_pretty(&j).unwrap()).unwrap();
            0
        }
        None => 1,
    }
}

/// shrink the input bytes of a violating case while the same (clause, class) persists
fn cmd_minimise(args: &[String]) -> i32 {
    let path = args.get(2).expect("minimise <in> <out>");
    let outp = args.get(3).expect("minimise <in> <out>");
    let (mut v, mut c) = load_case(path);
    let cat = catalog::builtin_catalog();
    let class = v["class"].as_str().unwrap_or("").to_string();
    let still = |c: &Case| -> bool {
        match eval(&cat, c).finding {
            Some(f) => f.class == class,
            None => false,
        }
    };
    if !still(&c) {
        println!("minimise: input does not reproduce; copied unchanged");
        std::fs::write(outp, serde_json::to_vec_pretty(&v).unwrap()).unwrap();
        return 0;
    }
    // clauses with an expected value keep the valid encoding intact and only shrink the suffix
    if matches!(c.clause.as_str(), "sinks" | "sinks-history" | "prim-roundtrip" | "sources" | "eof-reject" | "zip-roundtrip" | "ctor-index") {
        // the input is a valid encoding, a content block or goes with a program: kept as it is
        std::fs::write(outp, serde_json::to_vec_pretty(&v).unwrap()).unwrap();
        return 0;
    }
    let keep = if c.clause == "self-delimiting" || c.clause == "batch" || c.clause == "script" {
        c.enc_len.min(c.input.len())
    } else {
        0
    };
    let mut steps = 0;
    // 1. truncate the tail
    loop {
        let n = c.input.len();
        if n <= keep {
            break;
        }
        let mut progressed = false;
        for cut in [n - (n - keep) / 2, n - 1] {
            if cut < keep || cut >= n {
                continue;
            }
            let mut t = c.clone();
            t.input.truncate(cut);
            steps += 1;
            if still(&t) {
                c = t;
                progressed = true;
                break;
            }
        }
        if !progressed || steps > 400 {
            break;
        }
    }
    // 2. delete single bytes / small blocks
    if keep == 0 && c.clause != "ctor-index" && c.clause != "script" {
        let mut block = 8;
        while block >= 1 {
            let mut i = 0;
            while i + block <= c.input.len() && steps < 4000 {
                let mut t = c.clone();
                t.input.drain(i..i + block);
                steps += 1;
                if still(&t) {
                    c = t;
                } else {
                    i += 1;
                }
            }
            block /= 2;
        }
        // 3. simplify bytes towards zero
        for i in 0..c.input.len() {
            if c.input[i] != 0 && steps < 6000 {
                let mut t = c.clone();
                t.input[i] = 0;
                steps += 1;
                if still(&t) {
                    c = t;
                }
            }
        }
    }
    let ev = eval(&cat, &c);
    let o = v.as_object_mut().unwrap();
    o.insert("input_hex".into(), json!(model::hex(&c.input)));
    o.insert("minimised".into(), json!(true));
    o.insert("minimise_steps".into(), json!(steps));
    if let Some(f) = ev.finding {
        o.insert("detail".into(), json!(f.detail));
    }
    std::fs::write(outp, serde_json::to_vec_pretty(&v).unwrap()).unwrap();
    println!("minimised to {} input bytes in {steps} steps", c.input.len());
    0
}

fn cmd_merge(args: &[String]) -> i32 {
    let mut all: Vec<u64> = Vec::new();
    for p in &args[2..] {
        if let Ok(b) = std::fs::read(p) {
            for ch in b.chunks_exact(8) {
                all.push(u64::from_le_bytes(ch.try_into().unwrap()));
            }
        }
    }
    all.sort_unstable();
    all.dedup();
    println!("{}", all.len());
    0
}

/// the model must agree with the two byte vectors the repository itself pins
fn cmd_selfcheck() -> i32 {
    use crate::bridge::Bridge;
    let cat = catalog::builtin_catalog();
    // derivation.rs: Point { x: 1, y: -10 }
    let bytes = [0x02u8, 0x08, 0x08, 0x03, 0x02, 0x7a, 0xff, 0xff, 0xff, 0xf6, 0, 0, 0, 1];
    let d = model::dec::ref_decode(&cat.reg, &catalog::Point::ty(), &bytes);
    match d {
        Ok(d)
            if d.consumed == bytes.len()
                && d.val == model::ty::Val::Record(vec![model::ty::Val::I(1), model::ty::Val::I(-10), model::ty::Val::None]) => {}
        other => {
            eprintln!("selfcheck: model disagrees on the pinned Point vector: {:?}", other.map(|d| d.val));
            return 2;
        }
    }
    let re = model::enc::ref_encode(
        &cat.reg,
        &catalog::Point::ty(),
        &model::ty::Val::Record(vec![model::ty::Val::I(1), model::ty::Val::I(-10), model::ty::Val::None]),
        model::enc::Forms::canonical(),
    );
    if re != bytes {
        eprintln!("selfcheck: model encoder disagrees on the pinned Point vector: {}", model::hex(&re));
        return 2;
    }
    println!("selfcheck ok");
    0
}
