//! Per-worker statistics; merged by the supervisor (check script) into the evidence file.

use serde_json::{json, Value};
use std::collections::{BTreeMap, BTreeSet};

#[derive(Default)]
pub struct Stats {
    pub runs: u64,
    pub events: u64,
    pub cases: u64,
    pub ticks: u64,
    pub counters: BTreeMap<String, u64>,
    /// 64-bit fingerprints of distinct non-trivial cases
    pub distinct: BTreeSet<u64>,
    /// distinct (type, fault kind, clause, outcome) tuples
    pub tuples: BTreeSet<String>,
    pub samples: Vec<Value>,
    pub max_peak_ratio_x100: u64,
    /// canonical event log of the run in progress, folded (order-sensitive)
    pub run_acc: u64,
    /// sum over runs of their folded event logs (independent of how runs are split over workers)
    pub log_digest: u64,
}

impl Stats {
    pub fn count(&mut self, key: &str) {
        *self.counters.entry(key.to_string()).or_insert(0) += 1;
    }
    pub fn add(&mut self, key: &str, n: u64) {
        *self.counters.entry(key.to_string()).or_insert(0) += n;
    }
    /// one event of the canonical log
    pub fn note(&mut self, x: u64) {
        self.run_acc = model::rng::mix(self.run_acc, x);
    }
    pub fn sample(&mut self, v: Value) {
        if self.samples.len() < 5 {
            self.samples.push(v);
        }
    }
    pub fn to_json(&self) -> Value {
        json!({
            "runs": self.runs,
            "events": self.events,
            "cases": self.cases,
            "ticks": self.ticks,
            "counters": self.counters,
            "distinct": self.distinct.iter().map(|x| x.to_string()).collect::<Vec<_>>(),
            "tuples": self.tuples,
            "samples": self.samples,
            "max_peak_ratio_x100": self.max_peak_ratio_x100,
            "log_digest": self.log_digest.to_string(),
        })
    }
}
