//! Containment of one library call: panics are caught and classified, progress is metered in
//! ticks through the `verif-hooks` callback (S-step), allocations through the accounting
//! allocator (S-mem). A call that exhausts its tick budget is unwound with a marker payload and
//! reported as HANG, reproducibly.

use crate::alloc;
use desert::verif::{set_hook, Event};
use std::cell::{Cell, RefCell};
use std::collections::BTreeMap;
use std::panic::{catch_unwind, resume_unwind, AssertUnwindSafe};

pub struct FuelExhausted;

thread_local! {
    static TICKS: Cell<u64> = const { Cell::new(0) };
    static BUDGET: Cell<u64> = const { Cell::new(u64::MAX) };
    static DEPTH: Cell<u32> = const { Cell::new(0) };
    static MAX_DEPTH: Cell<u32> = const { Cell::new(0) };
    static PROBES: RefCell<BTreeMap<&'static str, u64>> = const { RefCell::new(BTreeMap::new()) };
    static LAST_PANIC_LOC: RefCell<String> = const { RefCell::new(String::new()) };
    static TRACE_READS: Cell<bool> = const { Cell::new(false) };
    static READS: RefCell<Vec<(usize, usize)>> = const { RefCell::new(Vec::new()) };
}

fn hook(e: Event) {
    match e {
        Event::Read { abs, len } | Event::Skip { abs, len } => {
            if TRACE_READS.with(|t| t.get()) {
                READS.with(|r| r.borrow_mut().push((abs, len)));
            }
            tick();
        }
        Event::IterNext => tick(),
        Event::RegionPush { .. } => {
            let d = DEPTH.with(|d| {
                d.set(d.get() + 1);
                d.get()
            });
            MAX_DEPTH.with(|m| {
                if d > m.get() {
                    m.set(d)
                }
            });
        }
        Event::RegionPop => DEPTH.with(|d| d.set(d.get().saturating_sub(1))),
        Event::Probe(name) => PROBES.with(|p| *p.borrow_mut().entry(name).or_insert(0) += 1),
    }
}

#[inline]
fn tick() {
    let t = TICKS.with(|t| {
        t.set(t.get() + 1);
        t.get()
    });
    if t > BUDGET.with(|b| b.get()) {
        // do not fire again while unwinding
        BUDGET.with(|b| b.set(u64::MAX));
        resume_unwind(Box::new(FuelExhausted));
    }
}

pub fn install_panic_hook() {
    std::panic::set_hook(Box::new(|info| {
        let loc = info
            .location()
            .map(|l| format!("{}:{}", l.file().rsplit("/repo/").next().unwrap_or(l.file()), l.line()))
            .unwrap_or_default();
        LAST_PANIC_LOC.with(|p| *p.borrow_mut() = loc);
    }));
}

/// probes accumulated on this thread since the last call
pub fn take_probes() -> BTreeMap<&'static str, u64> {
    PROBES.with(|p| std::mem::take(&mut *p.borrow_mut()))
}

#[derive(Clone, Debug, PartialEq, Eq)]
pub enum Outcome<T> {
    Ok(T),
    /// `Err(e)` of the library, rendered with `Debug`
    Err(String),
    Panic(String),
    Hang,
}

impl<T> Outcome<T> {
    pub fn class(&self) -> &'static str {
        match self {
            Outcome::Ok(_) => "ok",
            Outcome::Err(_) => "err",
            Outcome::Panic(_) => "panic",
            Outcome::Hang => "hang",
        }
    }
    pub fn is_ok(&self) -> bool {
        matches!(self, Outcome::Ok(_))
    }
    pub fn is_err(&self) -> bool {
        matches!(self, Outcome::Err(_))
    }
}

#[derive(Clone, Copy, Debug, Default)]
pub struct Meter {
    pub ticks: u64,
    pub mem: alloc::MemFigures,
    pub max_region_depth: u32,
}

/// Runs `f` contained and metered. `budget`: tick budget (S-step).
pub fn contain<T>(budget: u64, f: impl FnOnce() -> Result<T, desert::Error>) -> (Outcome<T>, Meter) {
    TICKS.with(|t| t.set(0));
    BUDGET.with(|b| b.set(budget));
    DEPTH.with(|d| d.set(0));
    MAX_DEPTH.with(|d| d.set(0));
    let old = set_hook(Some(hook));
    alloc::start();
    let r = catch_unwind(AssertUnwindSafe(f));
    let mem = alloc::stop();
    set_hook(old);
    BUDGET.with(|b| b.set(u64::MAX));
    let meter = Meter {
        ticks: TICKS.with(|t| t.get()),
        mem,
        max_region_depth: MAX_DEPTH.with(|d| d.get()),
    };
    let out = match r {
        Ok(Ok(v)) => Outcome::Ok(v),
        Ok(Err(e)) => Outcome::Err(format!("{e:?}")),
        Err(payload) => {
            if payload.is::<FuelExhausted>() {
                Outcome::Hang
            } else {
                let msg = if let Some(s) = payload.downcast_ref::<&str>() {
                    s.to_string()
                } else if let Some(s) = payload.downcast_ref::<String>() {
                    s.clone()
                } else {
                    "<non-string panic payload>".to_string()
                };
                let loc = LAST_PANIC_LOC.with(|p| p.borrow().clone());
                Outcome::Panic(format!("{msg} @ {loc}"))
            }
        }
    };
    (out, meter)
}

/// contained call of harness/model code that is not supposed to fail (a panic there is a harness
/// defect, reported as such)
pub fn contain_plain<T>(f: impl FnOnce() -> T) -> Result<T, String> {
    match catch_unwind(AssertUnwindSafe(f)) {
        Ok(v) => Ok(v),
        Err(payload) => {
            let msg = if let Some(s) = payload.downcast_ref::<&str>() {
                s.to_string()
            } else if let Some(s) = payload.downcast_ref::<String>() {
                s.clone()
            } else {
                "<panic>".to_string()
            };
            Err(format!("{msg} @ {}", LAST_PANIC_LOC.with(|p| p.borrow().clone())))
        }
    }
}

pub fn trace_reads(on: bool) {
    TRACE_READS.with(|t| t.set(on));
    READS.with(|r| r.borrow_mut().clear());
}

pub fn take_reads() -> Vec<(usize, usize)> {
    READS.with(|r| std::mem::take(&mut *r.borrow_mut()))
}

/// C05 budgets (DESIGN section 5)
pub fn tick_budget(len: usize) -> u64 {
    (1u64 << 17) + 64 * len as u64
}
pub fn heap_budget(len: usize) -> usize {
    (1usize << 20) + 1024 * len
}
