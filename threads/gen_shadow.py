#!/usr/bin/env python3
"""Writes the shadow manifest of desert_core for the shuttle build from /repo's own manifest:
same package, same dependencies and features, sources taken from /repo, but `lazy_static`
resolved to the shim crate (threads/shuttle/shadow/lazy_static)."""
import re, sys, os
repo = sys.argv[1] if len(sys.argv) > 1 else "/repo"
src = open(os.path.join(repo, "desert_core/Cargo.toml")).read()
out = re.sub(r'(?m)^lazy_static\s*=.*$', 'lazy_static = { path = "../lazy_static" }', src)
out = out.replace("[dependencies]", f'[lib]\npath = "{repo}/desert_core/src/lib.rs"\n\n[dependencies]', 1)
# dev-dependencies are not needed (and would only enlarge the lock file)
out = re.sub(r'(?s)\[dev-dependencies\].*?(?=\n\[|\Z)', '', out)
here = os.path.dirname(os.path.abspath(__file__))
open(os.path.join(here, "shuttle/shadow/desert_core/Cargo.toml"), "w").write(out)
m = open(os.path.join(here, "shuttle/shadow/desert_macro/Cargo.toml")).read()
m = re.sub(r'path = ".*?/desert_macro/src/lib.rs"', f'path = "{repo}/desert_macro/src/lib.rs"', m)
open(os.path.join(here, "shuttle/shadow/desert_macro/Cargo.toml"), "w").write(m)
