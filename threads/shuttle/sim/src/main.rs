//! `threads` engine, substrate A: shuttle owns thread spawn/join, the `Once` inside every per-type
//! metadata static (through the `lazy_static` shim), and gets a scheduling point at every sink
//! write and every decoder tick. One seed = one exactly repeatable batch of executions; a failing
//! schedule is persisted by shuttle and replayed with `replay <file>`.

#[allow(dead_code)]
#[path = "../../../scenario.rs"]
mod scenario;

mod rt {
    pub use shuttle::sync::{Arc, Mutex};
    use shuttle::rand::Rng;

    pub fn spawn<F: FnOnce() + Send + 'static>(f: F) -> shuttle::thread::JoinHandle<()> {
        shuttle::thread::spawn(f)
    }
    pub fn yield_point() {
        // sleep, not yield_now: PCT treats yield_now as a priority hint and degenerates on it
        shuttle::thread::sleep(std::time::Duration::from_millis(0));
    }
    pub fn below(n: usize) -> usize {
        shuttle::rand::thread_rng().gen_range(0..n)
    }
    fn hook(e: desert::verif::Event) {
        if matches!(e, desert::verif::Event::Read { .. } | desert::verif::Event::IterNext) {
            yield_point();
        }
    }
    pub fn install_decode_yield() {
        desert::verif::set_hook(Some(hook));
    }
}

use shuttle::scheduler::{PctScheduler, RandomScheduler};
use shuttle::{Config, FailurePersistence, Runner};
use std::collections::BTreeSet;
use std::sync::Mutex as StdMutex;

static GOLDEN: std::sync::OnceLock<Vec<String>> = std::sync::OnceLock::new();
static ORDERS: StdMutex<BTreeSet<u64>> = StdMutex::new(BTreeSet::new());
static COUNTS: StdMutex<(u64, u64)> = StdMutex::new((0, 0));

fn arg(args: &[String], name: &str) -> Option<String> {
    args.iter().position(|a| a == name).and_then(|i| args.get(i + 1).cloned())
}

fn fnv(xs: &[(usize, usize)]) -> u64 {
    let mut h: u64 = 0xcbf2_9ce4_8422_2325;
    for (a, b) in xs {
        for x in [*a as u64, *b as u64] {
            h ^= x;
            h = h.wrapping_mul(0x0000_0100_0000_01B3);
        }
    }
    h
}

fn load_golden(path: &str) {
    let text = std::fs::read_to_string(path).expect("golden file");
    let g: Vec<String> = text.lines().map(|l| l.to_string()).collect();
    assert_eq!(g.len(), scenario::NSPECS, "golden table size");
    let _ = GOLDEN.set(g);
}

fn body() {
    let golden: &'static [String] = GOLDEN.get().unwrap();
    let order = scenario::contended(golden);
    ORDERS.lock().unwrap().insert(fnv(&order));
    let mut c = COUNTS.lock().unwrap();
    c.0 += 1;
    c.1 += order.len() as u64;
}

fn config(persist: Option<String>) -> Config {
    let mut cfg = Config::new();
    cfg.stack_size = 1 << 20;
    cfg.silence_warnings = true;
    cfg.failure_persistence = match persist {
        Some(dir) => FailurePersistence::File(Some(dir.into())),
        None => FailurePersistence::None,
    };
    cfg
}

fn main() {
    let args: Vec<String> = std::env::args().collect();
    match args.get(1).map(|s| s.as_str()) {
        Some("run") => {
            let seed: u64 = arg(&args, "--seed").unwrap().parse().unwrap();
            let iters: usize = arg(&args, "--iters").unwrap().parse().unwrap();
            let sched = arg(&args, "--sched").unwrap_or_else(|| "random".into());
            load_golden(&arg(&args, "--golden").unwrap());
            let out = arg(&args, "--out").unwrap();
            let cfg = config(arg(&args, "--persist"));
            let started = std::time::Instant::now();
            let r = std::panic::catch_unwind(|| match sched.as_str() {
                "random" => Runner::new(RandomScheduler::new_from_seed(seed, iters), cfg).run(body),
                s if s.starts_with("pct") => {
                    let depth: usize = s[3..].parse().unwrap_or(2);
                    Runner::new(PctScheduler::new_from_seed(seed, depth, iters), cfg).run(body)
                }
                "nondeterminism" => {
                    use shuttle::scheduler::UncontrolledNondeterminismCheckScheduler;
                    let inner = RandomScheduler::new_from_seed(seed, iters);
                    Runner::new(UncontrolledNondeterminismCheckScheduler::new(inner), cfg).run(body)
                }
                other => panic!("unknown scheduler {other}"),
            });
            let c = *COUNTS.lock().unwrap();
            let orders = ORDERS.lock().unwrap().len();
            let failed = r.is_err();
            let msg = match &r {
                Err(p) => p.downcast_ref::<String>().cloned().or_else(|| p.downcast_ref::<&str>().map(|s| s.to_string())).unwrap_or_default(),
                Ok(_) => String::new(),
            };
            let json = format!(
                "{{\"seed\":{seed},\"sched\":\"{sched}\",\"executions\":{},\"calls\":{},\"distinct_completion_orders\":{orders},\"failed\":{failed},\"wall_s\":{:.3},\"message\":{:?}}}",
                c.0,
                c.1,
                started.elapsed().as_secs_f64(),
                msg
            );
            std::fs::write(out, json).unwrap();
            std::process::exit(if failed { 1 } else { 0 });
        }
        Some("replay") => {
            let file = args.get(2).expect("replay <schedule file> --golden <file>");
            load_golden(&arg(&args, "--golden").unwrap());
            let r = std::panic::catch_unwind(|| shuttle::replay_from_file(body, file));
            match r {
                Err(_) => {
                    println!("reproduced: the persisted schedule fails again");
                    std::process::exit(1)
                }
                Ok(_) => {
                    println!("not reproduced: the persisted schedule passes");
                    std::process::exit(0)
                }
            }
        }
        _ => {
            eprintln!("usage: threads_sim run --seed S --iters N --sched random|pct2|nondeterminism --golden FILE --out FILE [--persist DIR] | replay FILE --golden FILE");
            std::process::exit(2)
        }
    }
}
