// Shared scenario source of the `threads` engine (C18), included by the shuttle build
// (threads/shuttle/sim, per-type metadata statics under shuttle's scheduler) and by the Miri build
// (threads/miri/sim, std threads and the real lazy_static). The including crate provides `rt`:
// thread spawn/join, a yield point and the workload PRNG of the substrate.
//
// A *call spec* is one top-level encode or decode call. Its golden result is what the same call
// returns in a fresh process that performs only that call (the supervisor collects them through
// the `golden` sub-command) - literally the oracle of C18.

use super::rt;
use desert::{
    BinaryDeserializer, BinaryInput, BinaryOutput, BinarySerializer, DeduplicatedString, DeserializationContext,
    SerializationContext,
};
use desert_macro::BinaryCodec;
use std::rc::Rc;

mod types {
    use super::*;

    #[derive(Debug, PartialEq, Clone, BinaryCodec)]
    #[evolution(FieldAdded("x", 0), FieldRemoved("z"))]
    pub struct Pt {
        pub x: i32,
        pub y: i32,
        #[transient(None::<String>)]
        pub cached: Option<String>,
    }

    #[derive(Debug, PartialEq, Clone, BinaryCodec)]
    #[evolution(FieldAdded("extra", None), FieldMadeOptional("n"), FieldAdded("pts", Vec::new()), FieldRemoved("gone"))]
    pub struct Outer {
        pub id: u32,
        pub n: Option<i64>,
        pub extra: Option<String>,
        pub pt: Pt,
        pub pts: Vec<Pt>,
    }

    #[derive(Debug, PartialEq, Clone, BinaryCodec)]
    #[sorted_constructors]
    pub enum Shape {
        Zed,
        #[evolution(FieldAdded("h", 1u8))]
        Box2 {
            w: u16,
            h: u8,
        },
        #[transient]
        Cache(u64),
        Alpha(i16, String),
    }

    /// a client type whose `Clone` is shallow: results that share it share state
    #[derive(Debug, Clone, Default)]
    pub struct SharedLog(pub std::sync::Arc<std::sync::Mutex<Vec<u8>>>);
    impl BinarySerializer for SharedLog {
        fn serialize<O: BinaryOutput>(&self, context: &mut SerializationContext<O>) -> desert::Result<()> {
            let v = self.0.lock().unwrap().clone();
            v.serialize(context)
        }
    }
    impl BinaryDeserializer for SharedLog {
        fn deserialize(context: &mut DeserializationContext<'_>) -> desert::Result<Self> {
            Ok(SharedLog(std::sync::Arc::new(std::sync::Mutex::new(Vec::<u8>::deserialize(context)?))))
        }
    }

    #[derive(Debug, Clone, BinaryCodec)]
    #[evolution(FieldAdded("log", SharedLog::default()), FieldAdded("seen", Vec::new()))]
    pub struct Audited {
        pub id: u8,
        pub log: SharedLog,
        pub seen: Vec<String>,
    }

    #[derive(Debug, PartialEq, Clone, BinaryCodec)]
    pub struct Plain {
        pub a: u8,
        pub s: String,
        pub shape: Shape,
        pub t: (u16, Option<Pt>),
    }

    #[derive(BinaryCodec)]
    pub struct Names {
        pub a: DeduplicatedString,
        pub b: DeduplicatedString,
        pub c: Vec<DeduplicatedString>,
    }

    /// deduplicated strings inside a record whose header carries removed-field names (the names are
    /// deduplicated strings of the same stream)
    #[cfg(not(feature = "reduced"))]
    #[derive(BinaryCodec)]
    #[evolution(FieldRemoved("legacy"), FieldAdded("third", DeduplicatedString(String::new())), FieldRemoved("older"), FieldMadeTransient("cache"))]
    pub struct Tagged {
        pub first: DeduplicatedString,
        pub second: DeduplicatedString,
        pub third: DeduplicatedString,
        #[transient(0u8)]
        pub cache: u8,
    }

    /// declarations of the same name in different modules
    pub mod old {
        use desert_macro::BinaryCodec;
        #[derive(Debug, PartialEq, Clone, BinaryCodec)]
        pub struct Item {
            pub id: u32,
            pub name: String,
        }
    }
    pub mod new {
        use desert_macro::BinaryCodec;
        #[derive(Debug, PartialEq, Clone, BinaryCodec)]
        #[evolution(FieldAdded("extra", 7u8), FieldRemoved("old"))]
        pub struct Item {
            pub id: u32,
            pub extra: u8,
        }
    }

    /// three releases of one record, read across each other (every pair in both directions)
    pub mod rel {
        use desert_macro::BinaryCodec;
        pub mod v0 {
            use super::*;
            #[derive(Debug, PartialEq, Clone, BinaryCodec)]
            pub struct Job {
                pub a: u8,
                pub name: String,
            }
        }
        pub mod v1 {
            use super::*;
            #[derive(Debug, PartialEq, Clone, BinaryCodec)]
            #[evolution(FieldAdded("x", 5u32), FieldAdded("note", "n/a".to_string()))]
            pub struct Job {
                pub x: u32,
                pub a: u8,
                pub note: String,
                pub name: String,
            }
        }
        pub mod v2 {
            use super::*;
            #[derive(Debug, PartialEq, Clone, BinaryCodec)]
            #[evolution(FieldAdded("x", Some(5u32)), FieldAdded("note", "n/a".to_string()), FieldMadeOptional("x"), FieldMadeOptional("name"), FieldAdded("tags", Vec::new()))]
            pub struct Job {
                pub x: Option<u32>,
                pub tags: Vec<String>,
                pub a: u8,
                pub note: String,
                pub name: Option<String>,
            }
        }
    }

    /// a self-nesting declaration (decoded at depth ~50 by several threads at once)
    #[derive(Debug, PartialEq, Clone, BinaryCodec)]
    #[evolution(FieldAdded("tag", 0u8))]
    pub struct Link {
        pub v: u32,
        pub tag: u8,
        pub next: Option<Box<Link>>,
    }

    /// a client codec storing compressed frames at a level of its own
    pub struct Frame(pub Vec<u8>, pub u32);
    impl BinarySerializer for Frame {
        fn serialize<O: BinaryOutput>(&self, context: &mut SerializationContext<O>) -> desert::Result<()> {
            context.write_compressed(&self.0, flate2::Compression::new(self.1))
        }
    }
    impl BinaryDeserializer for Frame {
        fn deserialize(context: &mut DeserializationContext<'_>) -> desert::Result<Self> {
            Ok(Frame(context.read_compressed()?, 0))
        }
    }

    /// a client codec that fails after having written its payload
    pub struct Fragile {
        pub text: String,
        pub fail: bool,
    }
    impl BinarySerializer for Fragile {
        fn serialize<O: BinaryOutput>(&self, context: &mut SerializationContext<O>) -> desert::Result<()> {
            context.write_u8(0);
            self.text.serialize(context)?;
            self.fail.serialize(context)?;
            if self.fail {
                Err(desert::Error::LengthTooLarge)
            } else {
                Ok(())
            }
        }
    }
    impl BinaryDeserializer for Fragile {
        fn deserialize(context: &mut DeserializationContext<'_>) -> desert::Result<Self> {
            let _ = context.read_u8()?;
            Ok(Fragile { text: String::deserialize(context)?, fail: bool::deserialize(context)? })
        }
    }

    #[cfg(not(feature = "reduced"))]
    #[derive(BinaryCodec)]
    #[evolution(FieldAdded("f", Fragile { text: String::new(), fail: false }), FieldAdded("z", 0u8))]
    pub struct Brittle {
        pub a: u32,
        pub f: Fragile,
        pub s: String,
        pub z: u8,
    }

    /// a client codec that offers object identities to the stream (encode side)
    pub struct SharedPair(pub Rc<String>, pub Rc<String>, pub Rc<String>);
    impl BinarySerializer for SharedPair {
        fn serialize<O: BinaryOutput>(&self, context: &mut SerializationContext<O>) -> desert::Result<()> {
            for r in [&self.0, &self.1, &self.2] {
                if context.store_ref_or_object(&**r)? {
                    r.as_str().serialize(context)?;
                }
            }
            Ok(())
        }
    }
}
pub use types::*;

/// a sink that is a scheduling point at every write (S-sink)
#[derive(Default)]
pub struct YieldingSink(pub Vec<u8>);
impl BinaryOutput for YieldingSink {
    fn write_u8(&mut self, value: u8) {
        rt::yield_point();
        self.0.push(value);
    }
    fn write_bytes(&mut self, bytes: &[u8]) {
        rt::yield_point();
        self.0.extend_from_slice(bytes);
    }
}

fn hex(b: &[u8]) -> String {
    b.iter().map(|x| format!("{x:02x}")).collect()
}

fn enc<T: BinarySerializer>(v: &T, sink: usize) -> String {
    let r = match sink % 3 {
        0 => desert::serialize_to_byte_vec(v),
        1 => desert::serialize_to_bytes(v).map(|b| b.to_vec()),
        _ => desert::serialize(v, YieldingSink::default()).map(|s| s.0),
    };
    match r {
        Ok(b) => format!("ok:{}", hex(&b)),
        Err(e) => format!("err:{e:?}"),
    }
}

fn round<T: BinarySerializer + BinaryDeserializer + std::fmt::Debug>(v: &T) -> String {
    match desert::serialize_to_byte_vec(v) {
        Ok(b) => match desert::deserialize::<T>(&b) {
            Ok(x) => format!("ok:{x:?}"),
            Err(e) => format!("err:{e:?}"),
        },
        Err(e) => format!("err:{e:?}"),
    }
}

fn dec<T: BinaryDeserializer + std::fmt::Debug>(bytes: &[u8]) -> String {
    match desert::deserialize::<T>(bytes) {
        Ok(x) => format!("ok:{x:?}"),
        Err(e) => format!("err:{e:?}"),
    }
}

fn pt(k: i32) -> Pt {
    Pt { x: k, y: -k * 7, cached: None }
}
fn outer(k: u32) -> Outer {
    Outer {
        id: k,
        n: if k % 2 == 0 { Some(k as i64 * 1_000_000_007) } else { None },
        extra: if k % 3 == 0 { None } else { Some(format!("extra{k}")) },
        pt: pt(k as i32),
        pts: (0..(k % 4)).map(|i| pt(i as i32 + 10)).collect(),
    }
}
fn names(k: usize) -> Names {
    let d = |s: &str| DeduplicatedString(s.to_string());
    Names { a: d("alpha"), b: d(if k % 2 == 0 { "alpha" } else { "beta" }), c: vec![d("beta"), d("alpha"), d("gamma"), d("beta")] }
}
fn names_result(r: desert::Result<Names>) -> String {
    match r {
        Ok(n) => format!("ok:{} {} {:?}", n.a.0, n.b.0, n.c.iter().map(|x| x.0.clone()).collect::<Vec<_>>()),
        Err(e) => format!("err:{e:?}"),
    }
}
fn plain(k: u8) -> Plain {
    Plain {
        a: k,
        s: format!("s{k}"),
        shape: match k % 3 {
            0 => Shape::Zed,
            1 => Shape::Box2 { w: 300 + k as u16, h: k },
            _ => Shape::Alpha(-(k as i16), "al".into()),
        },
        t: (k as u16 * 3, if k % 2 == 0 { Some(pt(5)) } else { None }),
    }
}

#[cfg(not(feature = "reduced"))]
fn tagged(k: usize) -> Tagged {
    let d = |s: &str| DeduplicatedString(s.to_string());
    match k % 3 {
        0 => Tagged { first: d("tag"), second: d("tag"), third: d("legacy"), cache: 1 },
        1 => Tagged { first: d("older"), second: d("cache"), third: d("older"), cache: 2 },
        _ => Tagged { first: d("x"), second: d("legacy"), third: d("x"), cache: 3 },
    }
}
#[cfg(not(feature = "reduced"))]
fn tagged_result(r: desert::Result<Tagged>) -> String {
    match r {
        Ok(t) => format!("ok:{} {} {} {}", t.first.0, t.second.0, t.third.0, t.cache),
        Err(e) => format!("err:{e:?}"),
    }
}

fn chain(n: u32) -> Link {
    let mut l = Link { v: 0, tag: 9, next: None };
    for i in 1..n {
        l = Link { v: i, tag: (i % 7) as u8, next: Some(Box::new(l)) };
    }
    l
}
fn text(n: usize) -> Vec<u8> {
    (0..n).map(|i| b"the quick brown fox "[i % 20]).collect()
}
fn frame_result(level: u32, n: usize) -> String {
    match desert::serialize_to_byte_vec(&Frame(text(n), level)) {
        Ok(b) => match desert::deserialize::<Frame>(&b) {
            Ok(f) => format!("ok:{} bytes in a frame of {}: {}", f.0.len(), b.len(), hex(&b[..b.len().min(24)])),
            Err(e) => format!("err:{e:?}"),
        },
        Err(e) => format!("err:{e:?}"),
    }
}

/// call specs 0..N_ADT exercise derived types, per-call tables and failing codecs; the rest run the
/// built-in generic codecs at several instantiations each (so that state hidden in generic code - a
/// static shared by all instantiations, a per-thread memo - is met in more than one order)
pub const N_ADT: usize = 54;
pub const NSPECS: usize = N_ADT + 54 + 9 + N_HEAVY;
/// the last call specs are expensive (megabytes through the inflater): call histories only
pub const N_HEAVY: usize = 1;

/// two calls out of three come from the derived-type specs
pub fn pick_spec() -> usize {
    if rt::below(3) < 2 {
        rt::below(N_ADT)
    } else {
        N_ADT + rt::below(NSPECS - N_ADT - N_HEAVY)
    }
}

/// like `pick_spec`, with the expensive specs (scenario C only: native code, one thread)
pub fn pick_spec_history() -> usize {
    if rt::below(40) == 0 {
        NSPECS - N_HEAVY + rt::below(N_HEAVY)
    } else {
        pick_spec()
    }
}

fn cross<W: BinarySerializer, R: BinaryDeserializer + std::fmt::Debug>(w: &W) -> String {
    match desert::serialize_to_byte_vec(w).and_then(|b| desert::deserialize::<R>(&b)) {
        Ok(x) => format!("ok:{x:?}"),
        Err(e) => format!("err:{e:?}"),
    }
}

/// a 9 MiB run through one compressed frame, decoded through the context API
fn big_frame() -> String {
    let content = vec![0x5au8; 9 << 20];
    let mut out = SerializationContext::new(Vec::new());
    if let Err(e) = out.write_compressed(&content, flate2::Compression::new(1)) {
        return format!("err:{e:?}");
    }
    let bytes = out.into_output();
    let mut ctx = DeserializationContext::new(&bytes);
    match Frame::deserialize(&mut ctx) {
        Ok(f) => format!("ok:{} bytes from a frame of {}", f.0.len(), bytes.len()),
        Err(e) => format!("err:{e:?}"),
    }
}

/// `impl BinarySerializer for [T]` reached through a sized wrapper
struct SliceW<'a, T>(&'a [T]);
impl<T: BinarySerializer + 'static> BinarySerializer for SliceW<'_, T> {
    fn serialize<O: BinaryOutput>(&self, context: &mut SerializationContext<O>) -> desert::Result<()> {
        self.0.serialize(context)
    }
}

fn zoned(tz: chrono_tz::Tz, y: i32, m: u32, d: u32, h: u32) -> String {
    use chrono::TimeZone;
    let v = tz.with_ymd_and_hms(y, m, d, h, 30, 0).single().expect("unambiguous local time");
    match desert::serialize_to_byte_vec(&v).and_then(|b| desert::deserialize::<chrono::DateTime<chrono_tz::Tz>>(&b)) {
        Ok(x) => format!("ok:{} {:?}", x.to_rfc3339(), x),
        Err(e) => format!("err:{e:?}"),
    }
}

fn builtin(k: usize) -> String {
    use std::collections::{BTreeMap, BTreeSet, HashMap, HashSet, LinkedList};
    use std::sync::Arc;
    use std::time::Duration;
    match k {
        0 => enc(&[1u8, 2, 3, 4], k),
        1 => enc(&[7u32, 8, 9], k),
        2 => enc(&SliceW(&[5u8, 6][..]), k),
        3 => enc(&SliceW(&[300u16, 2][..]), k),
        4 => enc(&SliceW(&["a".to_string(), "a".to_string()][..]), k),
        5 => enc(&[0u8; 0], k),
        6 => round(&[9u8, 8, 7]),
        7 => round(&[-1i64, 1]),
        8 => round(&["x".to_string(), "y".to_string()]),
        9 => round(&[Some(1u8), None]),
        10 => round(&vec![1u8, 2, 3]),
        11 => round(&vec![1u32, 2, 3]),
        12 => round(&vec!["s".to_string(), "s".to_string(), "t".to_string()]),
        13 => round(&vec![Some(-1i8), None]),
        14 => round(&LinkedList::from([1u16, 2, 3])),
        15 => round(&LinkedList::from([1u8, 2, 3])),
        16 => round(&Some(7u8)),
        17 => round(&Some("opt".to_string())),
        18 => round(&None::<Vec<u8>>),
        19 => round(&Ok::<u8, String>(3)),
        20 => round(&Err::<String, u8>(4)),
        21 => round(&BTreeMap::from([(1u8, "one".to_string()), (2, "two".to_string())])),
        22 => round(&BTreeMap::from([("k".to_string(), 1u32)])),
        23 => round(&HashMap::from([(1u8, 2u8)])),
        24 => round(&BTreeSet::from([3i32, -3])),
        25 => round(&HashSet::from(["only".to_string()])),
        26 => round(&Box::new(77u32)),
        #[cfg(not(feature = "reduced"))]
        27 => round(&Rc::new("rc".to_string())),
        #[cfg(not(feature = "reduced"))]
        28 => round(&Arc::new(vec![1u8, 2])),
        #[cfg(not(feature = "reduced"))]
        29 => round(&(1u8, 2u16, 3u32)),
        30 => round(&("l".to_string(), "l".to_string())),
        31 => round(&'\u{20AC}'),
        32 => round(&Duration::new(5, 999_999_999)),
        33 => round(&-0.5f64),
        34 => round(&(i128::MIN, u128::MAX)),
        35 => round(&bytes::Bytes::from_static(b"bytes")),
        36 => round(&uuid::Uuid::from_u128(0x0123_4567_89ab_cdef_0123_4567_89ab_cdef)),
        37 => round(&"-12345.678900".parse::<bigdecimal::BigDecimal>().unwrap()),
        38 => round(&bigdecimal::num_bigint::BigInt::from(-1234567890123456789i64)),
        39 => round(&chrono::NaiveDate::from_ymd_opt(-4, 2, 29).unwrap()),
        40 => round(&chrono::NaiveTime::from_hms_nano_opt(23, 59, 59, 1_999_999_999).unwrap()),
        41 => round(&chrono::DateTime::<chrono::Utc>::from_timestamp(1_700_000_000, 5).unwrap()),
        42 => round(&chrono::DateTime::parse_from_rfc3339("2024-03-31T02:30:00+05:45").unwrap()),
        43 => round(&(chrono::Weekday::Sun, chrono::Month::December, chrono_tz::Tz::America__New_York)),
        // instants on both sides of a daylight-saving switch, per zone
        44 => zoned(chrono_tz::Tz::Europe__Budapest, 2024, 1, 15, 13),
        45 => zoned(chrono_tz::Tz::Europe__Budapest, 2024, 7, 15, 14),
        46 => zoned(chrono_tz::Tz::America__New_York, 2023, 12, 1, 8),
        47 => zoned(chrono_tz::Tz::America__New_York, 2023, 6, 1, 8),
        48 => zoned(chrono_tz::Tz::Australia__Lord_Howe, 2024, 1, 10, 9),
        49 => zoned(chrono_tz::Tz::Australia__Lord_Howe, 2024, 7, 10, 9),
        // decoders of the generic containers on fixed bytes (unknown-length form, byte form)
        50 => dec::<Vec<u16>>(&[1, 1, 0, 5, 1, 0, 6, 0]),
        51 => dec::<(Vec<u8>, [u8; 2], Vec<i8>)>(&[0, 2, 1, 2, 2, 3, 4, 4, 0xff, 0x7f]),
        // old data read by a definition with added fields: the defaults are this call's own (the
        // caller appends to what it got; a later call must not see that)
        52 | 53 => match desert::deserialize::<Audited>(&[0, 7 + (k as u8 - 52)]) {
            Ok(mut a) => {
                a.log.0.lock().unwrap().push(1);
                a.seen.push("seen".into());
                let n = a.log.0.lock().unwrap().len();
                format!("ok:{} log={} seen={:?}", a.id, n, a.seen)
            }
            Err(e) => format!("err:{e:?}"),
        },
        // one record at three releases: every writer/reader pair (what one decode leaves behind in
        // pooled or cached per-chunk facts must not reach the next)
        54 => cross::<_, rel::v1::Job>(&rel::v0::Job { a: 1, name: "zero".into() }),
        55 => cross::<_, rel::v2::Job>(&rel::v0::Job { a: 2, name: "zero".into() }),
        56 => cross::<_, rel::v0::Job>(&rel::v1::Job { x: 7, a: 3, note: "one".into(), name: "n1".into() }),
        57 => cross::<_, rel::v2::Job>(&rel::v1::Job { x: 8, a: 4, note: "one".into(), name: "n1".into() }),
        58 => cross::<_, rel::v0::Job>(&rel::v2::Job { x: Some(9), tags: vec!["t".into()], a: 5, note: "two".into(), name: Some("n2".into()) }),
        59 => cross::<_, rel::v1::Job>(&rel::v2::Job { x: Some(7), tags: vec![], a: 6, note: "two".into(), name: Some("n2".into()) }),
        60 => cross::<_, rel::v1::Job>(&rel::v2::Job { x: None, tags: vec![], a: 7, note: "two".into(), name: Some("n2".into()) }),
        61 => cross::<_, rel::v1::Job>(&rel::v2::Job { x: Some(1), tags: vec!["u".into(), "u".into()], a: 8, note: "".into(), name: None }),
        62 => cross::<_, rel::v2::Job>(&rel::v2::Job { x: None, tags: vec![], a: 9, note: "".into(), name: None }),
        63 => big_frame(),
        _ => panic!("no built-in call spec {k}"),
    }
}

/// performs call spec `i` and renders its result; a panic inside the library is a result too
pub fn call(i: usize) -> String {
    match std::panic::catch_unwind(|| call_inner(i)) {
        Ok(r) => r,
        Err(p) => format!(
            "panic:{}",
            p.downcast_ref::<String>().cloned().or_else(|| p.downcast_ref::<&str>().map(|s| s.to_string())).unwrap_or_default()
        ),
    }
}

fn call_inner(i: usize) -> String {
    match i {
        0..=2 => enc(&pt(3), i),
        3..=5 => enc(&outer(6), i),
        6 => enc(&outer(7), 2),
        7..=9 => enc(&plain(i as u8), i),
        10 => enc(&Shape::Cache(9), 0),
        11 => enc(&Shape::Box2 { w: 1, h: 2 }, 2),
        12..=13 => enc(&names(i), i),
        14 => round(&pt(-4)),
        15 => round(&outer(9)),
        16 => round(&outer(4)),
        17 => round(&plain(4)),
        18 => round(&plain(5)),
        19 => names_result(desert::serialize_to_byte_vec(&names(1)).and_then(|b| desert::deserialize::<Names>(&b))),
        20 => names_result(desert::serialize_to_byte_vec(&names(2)).and_then(|b| desert::deserialize::<Names>(&b))),
        // decodes of fixed bytes, including malformed ones
        21 => dec::<Pt>(&[0x02, 0x08, 0x08, 0x03, 0x02, 0x7a, 0xff, 0xff, 0xff, 0xf6, 0, 0, 0, 1]),
        22 => dec::<Pt>(&[0x02, 0x08, 0x08, 0x03, 0x02, 0x7a, 0xff, 0xff]),
        23 => dec::<Shape>(&[0, 9]),
        24 => dec::<Shape>(&[0, 2, 0, 0, 0, 0, 0, 0, 0, 0, 1]),
        25 => dec::<Outer>(&[0]),
        26 => dec::<(u16, Option<Pt>)>(&[0, 0, 7, 0]),
        // writes that fail half way, and what follows them
        #[cfg(not(feature = "reduced"))]
        27 => enc(&Brittle { a: 1, f: Fragile { text: "stale bytes that must not leak".into(), fail: true }, s: "s".into(), z: 9 }, 0),
        #[cfg(not(feature = "reduced"))]
        28 => enc(&Brittle { a: 1, f: Fragile { text: "stale bytes that must not leak".into(), fail: true }, s: "s".into(), z: 9 }, 1),
        #[cfg(not(feature = "reduced"))]
        29 => enc(&Brittle { a: 2, f: Fragile { text: "fine".into(), fail: false }, s: "t".into(), z: 3 }, 1),
        30 => enc(&("héllo".to_string(), '\u{1F600}'), 1),
        31 => enc(&(42u32, "after".to_string()), 1),
        // object identities restart with every call
        32..=33 => {
            let a = Rc::new("shared".to_string());
            let b = Rc::new("other".to_string());
            enc(&SharedPair(a.clone(), b, a), i)
        }
        // deduplicated strings next to removed-field names of the header
        #[cfg(not(feature = "reduced"))]
        34..=36 => enc(&tagged(i), i),
        #[cfg(not(feature = "reduced"))]
        37..=39 => tagged_result(desert::serialize_to_byte_vec(&tagged(i)).and_then(|b| desert::deserialize::<Tagged>(&b))),
        // a deep self-nesting value
        40 => round(&chain(50)),
        41 => enc(&chain(40), 2),
        // compressed frames at different levels, and a damaged one in between
        42 => frame_result(9, 2000),
        43 => frame_result(0, 300),
        44 => frame_result(1, 2000),
        45 => frame_result(6, 70),
        46 => dec::<(u8, u8)>(&[0, 1]).replace("ok", "ok") + &match desert::deserialize::<Frame>(&[9, 4, 0xff, 0xff, 0xff, 0xff]) {
            Ok(f) => format!("|ok:{}", f.0.len()),
            Err(e) => format!("|err:{e:?}"),
        },
        // same-named declarations in two modules
        47 => enc(&old::Item { id: 5, name: "five".into() }, 0),
        48 => enc(&new::Item { id: 6, extra: 9 }, 1),
        49 => round(&old::Item { id: 7, name: "seven".into() }),
        50 => round(&new::Item { id: 8, extra: 1 }),
        // well-formed headers that say something else than the honest ones of the same types: what
        // they say must not outlive the call
        51 => dec::<Pt>(&[0x02, 0x08, 0x08, 0x03, 0x02, 0x79, 0xff, 0xff, 0xff, 0xf6, 0, 0, 0, 1]),
        52 => dec::<Outer>(&{
            let mut b = desert::serialize_to_byte_vec(&outer(6)).unwrap();
            // the made-optional position byte of the header: 0xff (position 1) -> 0x00 (position 0)
            if let Some(p) = b.iter().position(|x| *x == 0xff) {
                b[p] = 0x00;
            }
            b
        }),
        #[cfg(not(feature = "reduced"))]
        53 => tagged_result(desert::deserialize::<Tagged>(&{
            let mut b = desert::serialize_to_byte_vec(&tagged(0)).unwrap();
            // "legacy" -> "second": another removed-field name of the same length
            if let Some(p) = b.windows(6).position(|w| w == b"legacy") {
                b[p..p + 6].copy_from_slice(b"second");
            }
            b
        })),
        // the `reduced` build (taken by the supervisor when the full scenario does not compile against
        // the tree under test) leaves out the two derived declarations whose added fields have types
        // without Clone / Debug / PartialEq
        #[cfg(feature = "reduced")]
        27..=29 | 34..=39 | 53 => "skipped in the reduced build".to_string(),
        _ if i < NSPECS => builtin(i - N_ADT),
        _ => panic!("no call spec {i}"),
    }
}

/// Scenario A / B: 2-4 client threads, each 1-6 calls; every result must equal its golden entry.
/// Returns the completion order (thread, spec) as the interleaving fingerprint.
pub fn contended(golden: &'static [String]) -> Vec<(usize, usize)> {
    let nthreads = 2 + rt::below(3);
    let log = rt::Arc::new(rt::Mutex::new(Vec::new()));
    let mut handles = Vec::new();
    // every other scenario is a first-use stampede: all threads begin with the same call, so the
    // lazily initialised metadata of its types is contended by everybody at once
    let stampede = if rt::below(2) == 0 { Some(pick_spec()) } else { None };
    for t in 0..nthreads {
        let ncalls = 1 + rt::below(6);
        let mut plan: Vec<usize> = (0..ncalls).map(|_| pick_spec()).collect();
        if let Some(s0) = stampede {
            plan.insert(0, s0);
        }
        let log = log.clone();
        handles.push(rt::spawn(move || {
            rt::install_decode_yield();
            for i in plan {
                let r = call(i);
                assert!(
                    r == golden[i],
                    "C18 violated: call spec {i} on thread {t} returned {r}, a fresh process returns {}",
                    golden[i]
                );
                log.lock().unwrap().push((t, i));
            }
        }));
    }
    for h in handles {
        h.join().unwrap();
    }
    let l = log.lock().unwrap().clone();
    l
}

/// Scenario C: one thread, a history of calls with repetition; every result equals its golden entry
pub fn history(golden: &[String], plan: &[usize]) -> Result<(), String> {
    for (k, i) in plan.iter().enumerate() {
        let r = call(*i);
        if r != golden[*i] {
            return Err(format!(
                "call {k} of the history (spec {i}) returned {r}, a fresh process returns {}; history so far: {:?}",
                golden[*i],
                &plan[..=k]
            ));
        }
    }
    Ok(())
}
