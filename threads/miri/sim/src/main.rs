//! `threads` engine on the code exactly as shipped: std threads and the real lazy_static.
//! Built natively it supplies the golden table (`golden <i>`: a fresh process that performs only
//! that call) and runs scenario C (call histories on one thread). Run under Miri
//! (`contended --seed N`) it is scenario B: Miri's seeded scheduler preempts real threads and
//! reports data races and undefined behaviour.

#[allow(dead_code)]
#[path = "../../../scenario.rs"]
mod scenario;

mod rt {
    pub use std::sync::{Arc, Mutex};
    use std::sync::atomic::{AtomicU64, Ordering};

    pub static RNG: AtomicU64 = AtomicU64::new(0x9E3779B97F4A7C15);

    pub fn spawn<F: FnOnce() + Send + 'static>(f: F) -> std::thread::JoinHandle<()> {
        std::thread::spawn(f)
    }
    pub fn yield_point() {
        // under Miri the seeded preemption of the interpreter decides who runs; explicit yields would
        // turn its schedule into a fixed round-robin
        if !cfg!(miri) {
            std::thread::yield_now();
        }
    }
    /// only called by the spawning thread, before the client threads exist
    pub fn below(n: usize) -> usize {
        let mut x = RNG.load(Ordering::Relaxed);
        x = x.wrapping_add(0x9E37_79B9_7F4A_7C15);
        RNG.store(x, Ordering::Relaxed);
        let mut z = x;
        z = (z ^ (z >> 30)).wrapping_mul(0xBF58_476D_1CE4_E5B9);
        z = (z ^ (z >> 27)).wrapping_mul(0x94D0_49BB_1331_11EB);
        z ^= z >> 31;
        ((z as u128 * n as u128) >> 64) as usize
    }
    fn hook(e: desert::verif::Event) {
        if matches!(e, desert::verif::Event::IterNext) {
            yield_point();
        }
    }
    pub fn install_decode_yield() {
        desert::verif::set_hook(Some(hook));
    }
}

fn arg(args: &[String], name: &str) -> Option<String> {
    args.iter().position(|a| a == name).and_then(|i| args.get(i + 1).cloned())
}

fn load_golden(path: &str) -> &'static [String] {
    let text = std::fs::read_to_string(path).expect("golden file");
    let g: Vec<String> = text.lines().map(|l| l.to_string()).collect();
    assert_eq!(g.len(), scenario::NSPECS, "golden table size");
    GOLDEN.get_or_init(|| g)
}

static GOLDEN: std::sync::OnceLock<Vec<String>> = std::sync::OnceLock::new();

fn main() {
    let args: Vec<String> = std::env::args().collect();
    match args.get(1).map(|s| s.as_str()) {
        Some("nspecs") => println!("{}", scenario::NSPECS),
        Some("golden") => {
            let i: usize = args[2].parse().unwrap();
            println!("{}", scenario::call(i));
        }
        Some("contended") => {
            let mut seed: u64 = arg(&args, "--seed").unwrap().parse().unwrap();
            if cfg!(miri) {
                // every Miri seed is a fresh interpreter (fresh statics) with its own address layout:
                // fold a stack address into the workload seed so that `-Zmiri-many-seeds` varies the
                // workload together with the schedule (both are a function of the Miri seed)
                let probe = 0u8;
                seed ^= (&probe as *const u8 as u64) >> 3;
            }
            rt::RNG.store(seed.wrapping_mul(0x2545F4914F6CDD1D) ^ 0x9E3779B97F4A7C15, std::sync::atomic::Ordering::Relaxed);
            let golden = load_golden(&arg(&args, "--golden").unwrap());
            let rounds: usize = arg(&args, "--rounds").map(|x| x.parse().unwrap()).unwrap_or(1);
            for _ in 0..rounds {
                let order = scenario::contended(golden);
                println!("completion order: {order:?}");
            }
        }
        Some("hist") => {
            // scenario C: histories of calls on one thread, nothing stubbed
            let seed: u64 = arg(&args, "--seed").unwrap().parse().unwrap();
            let from: u64 = arg(&args, "--from").unwrap().parse().unwrap();
            let to: u64 = arg(&args, "--to").unwrap().parse().unwrap();
            let golden_path = arg(&args, "--golden").unwrap();
            load_golden(&golden_path);
            let mut calls = 0u64;
            let mut distinct = std::collections::BTreeSet::new();
            for run in from..to {
                rt::RNG.store(seed ^ run.wrapping_mul(0xD6E8FEB86659FD93), std::sync::atomic::Ordering::Relaxed);
                let n = 20 + rt::below(180);
                let plan: Vec<usize> = (0..n).map(|_| scenario::pick_spec_history()).collect();
                calls += n as u64;
                let mut h: u64 = 0xcbf29ce484222325;
                for p in &plan {
                    h = (h ^ *p as u64).wrapping_mul(0x100000001b3);
                }
                distinct.insert(h);
                // every history is its own process image (fresh statics, fresh thread-locals): the
                // first uses of a history are first uses of the process, and the plan alone replays it
                let out = std::process::Command::new(std::env::current_exe().unwrap())
                    .args(["replay-hist", "--golden", &golden_path, "--plan"])
                    .arg(plan.iter().map(|p| p.to_string()).collect::<Vec<_>>().join(","))
                    .output()
                    .expect("spawn of a history process");
                if !out.status.success() {
                    let m = String::from_utf8_lossy(&out.stdout).trim().to_string() + String::from_utf8_lossy(&out.stderr).trim();
                    println!("{{\"failed\":true,\"run\":{run},\"calls\":{calls},\"message\":{m:?},\"plan\":{plan:?}}}");
                    std::process::exit(1);
                }
            }
            println!("{{\"failed\":false,\"runs\":{},\"calls\":{calls},\"distinct_histories\":{}}}", to - from, distinct.len());
        }
        Some("unsafe-decoders") => {
            // C05, thorough tier: the decoders that contain `unsafe` (fixed-size arrays, byte vectors)
            // on damaged input under Miri, which turns "returns uninitialised or foreign memory"
            // into a definite verdict
            let seed: u64 = arg(&args, "--seed").unwrap().parse().unwrap();
            let n: usize = arg(&args, "--n").unwrap().parse().unwrap();
            rt::RNG.store(seed ^ 0xA5A5_5A5A_1234_5678, std::sync::atomic::Ordering::Relaxed);
            let mut outcomes = [0usize; 2];
            for _ in 0..n {
                // a valid encoding of one of the shapes, then damaged
                let kind = rt::below(6);
                let mut bytes: Vec<u8> = match kind {
                    0 => desert::serialize_to_byte_vec(&[1u32, 2, 3]).unwrap(),
                    1 => desert::serialize_to_byte_vec(&["a".to_string(), "bc".to_string()]).unwrap(),
                    2 => desert::serialize_to_byte_vec(&[9u8, 8, 7, 6]).unwrap(),
                    3 => desert::serialize_to_byte_vec(&vec![1u8, 2, 3, 4, 5]).unwrap(),
                    4 => desert::serialize_to_byte_vec(&vec![[1u8, 2], [3, 4]]).unwrap(),
                    _ => desert::serialize_to_byte_vec(&(vec![7u16, 8], [Some(1u8), None, Some(3)])).unwrap(),
                };
                for _ in 0..rt::below(3) {
                    if bytes.is_empty() {
                        break;
                    }
                    match rt::below(4) {
                        0 => {
                            let i = rt::below(bytes.len());
                            bytes[i] ^= 1 << rt::below(8);
                        }
                        1 => {
                            let k = rt::below(bytes.len());
                            bytes.truncate(k);
                        }
                        2 => {
                            let i = rt::below(bytes.len());
                            bytes[i] = [0u8, 1, 2, 3, 0xff, 0x7f, 0x80][rt::below(7)];
                        }
                        _ => {
                            let i = rt::below(bytes.len());
                            let b = bytes[i];
                            bytes.insert(i, b);
                        }
                    }
                }
                let ok = match rt::below(6) {
                    0 => desert::deserialize::<[u32; 3]>(&bytes).map(|x| x.iter().fold(0u32, |a, b| a.wrapping_add(*b)) as usize).is_ok(),
                    1 => desert::deserialize::<[String; 2]>(&bytes).map(|x| x[0].len() + x[1].len()).is_ok(),
                    2 => desert::deserialize::<[u8; 4]>(&bytes).map(|x| x[0] as usize + x[3] as usize).is_ok(),
                    3 => desert::deserialize::<Vec<u8>>(&bytes).map(|x| x.len()).is_ok(),
                    4 => desert::deserialize::<Vec<[u8; 2]>>(&bytes).map(|x| x.len()).is_ok(),
                    _ => desert::deserialize::<(Vec<u16>, [Option<u8>; 3])>(&bytes).map(|x| x.0.len()).is_ok(),
                };
                outcomes[ok as usize] += 1;
            }
            println!("{{\"decodes\":{n},\"ok\":{},\"err\":{}}}", outcomes[1], outcomes[0]);
        }
        Some("replay-hist") => {
            let golden = load_golden(&arg(&args, "--golden").unwrap());
            let plan: Vec<usize> = arg(&args, "--plan").unwrap().split(',').filter(|s| !s.is_empty()).map(|s| s.trim().parse().unwrap()).collect();
            match scenario::history(golden, &plan) {
                Err(m) => {
                    println!("reproduced: {m}");
                    std::process::exit(1)
                }
                Ok(()) => println!("not reproduced"),
            }
        }
        _ => {
            eprintln!("usage: threads_miri nspecs | golden <i> | contended --seed N --golden FILE | hist --seed S --from A --to B --golden FILE | replay-hist --plan a,b,c --golden FILE");
            std::process::exit(2)
        }
    }
}
